"""Reference model of the DICOM upper-layer state machine, transcribed from
PS3.8 Table 9-10 (state transition table) and Tables 9-6 .. 9-9 (actions).
Independent of pynetdicom: nothing is imported from it."""

STATES = ["Sta%d" % i for i in range(1, 14)]
EVENTS = ["Evt%d" % i for i in range(1, 20)]

_ASSOC = ["Sta%d" % i for i in range(6, 13)]          # Sta6..Sta12
_S3_5_12 = ["Sta3", "Sta5"] + _ASSOC                  # states with an association (being) established


def _row(d, evt, mapping):
    for st, act_next in mapping.items():
        d[(st, evt)] = act_next


TABLE = {}
_row(TABLE, "Evt1", {"Sta1": ("AE-1", ("Sta4",))})
_row(TABLE, "Evt2", {"Sta4": ("AE-2", ("Sta5",))})
_m = {"Sta2": ("AA-1", ("Sta13",)), "Sta3": ("AA-8", ("Sta13",)), "Sta5": ("AE-3", ("Sta6",)), "Sta13": ("AA-6", ("Sta13",))}
_m.update({s: ("AA-8", ("Sta13",)) for s in _ASSOC})
_row(TABLE, "Evt3", _m)
_m = {"Sta2": ("AA-1", ("Sta13",)), "Sta3": ("AA-8", ("Sta13",)), "Sta5": ("AE-4", ("Sta1",)), "Sta13": ("AA-6", ("Sta13",))}
_m.update({s: ("AA-8", ("Sta13",)) for s in _ASSOC})
_row(TABLE, "Evt4", _m)
_row(TABLE, "Evt5", {"Sta1": ("AE-5", ("Sta2",))})
_m = {"Sta2": ("AE-6", ("Sta3", "Sta13")), "Sta13": ("AA-7", ("Sta13",))}
_m.update({s: ("AA-8", ("Sta13",)) for s in _S3_5_12})
_row(TABLE, "Evt6", _m)
_row(TABLE, "Evt7", {"Sta3": ("AE-7", ("Sta6",))})
_row(TABLE, "Evt8", {"Sta3": ("AE-8", ("Sta13",))})
_row(TABLE, "Evt9", {"Sta6": ("DT-1", ("Sta6",)), "Sta8": ("AR-7", ("Sta8",))})
_m = {"Sta2": ("AA-1", ("Sta13",)), "Sta6": ("DT-2", ("Sta6",)), "Sta7": ("AR-6", ("Sta7",)), "Sta13": ("AA-6", ("Sta13",))}
_m.update({s: ("AA-8", ("Sta13",)) for s in ["Sta3", "Sta5", "Sta8", "Sta9", "Sta10", "Sta11", "Sta12"]})
_row(TABLE, "Evt10", _m)
_row(TABLE, "Evt11", {"Sta6": ("AR-1", ("Sta7",))})
_m = {"Sta2": ("AA-1", ("Sta13",)), "Sta6": ("AR-2", ("Sta8",)), "Sta7": ("AR-8", ("Sta9", "Sta10")), "Sta13": ("AA-6", ("Sta13",))}
_m.update({s: ("AA-8", ("Sta13",)) for s in ["Sta3", "Sta5", "Sta8", "Sta9", "Sta10", "Sta11", "Sta12"]})
_row(TABLE, "Evt12", _m)
_m = {"Sta2": ("AA-1", ("Sta13",)), "Sta7": ("AR-3", ("Sta1",)), "Sta10": ("AR-10", ("Sta12",)), "Sta11": ("AR-3", ("Sta1",)), "Sta13": ("AA-6", ("Sta13",))}
_m.update({s: ("AA-8", ("Sta13",)) for s in ["Sta3", "Sta5", "Sta6", "Sta8", "Sta9", "Sta12"]})
_row(TABLE, "Evt13", _m)
_row(TABLE, "Evt14", {"Sta8": ("AR-4", ("Sta13",)), "Sta9": ("AR-9", ("Sta11",)), "Sta12": ("AR-4", ("Sta13",))})
_m = {"Sta4": ("AA-2", ("Sta1",))}
_m.update({s: ("AA-1", ("Sta13",)) for s in _S3_5_12})
_row(TABLE, "Evt15", _m)
_m = {"Sta2": ("AA-2", ("Sta1",)), "Sta13": ("AA-2", ("Sta1",))}
_m.update({s: ("AA-3", ("Sta1",)) for s in _S3_5_12})
_row(TABLE, "Evt16", _m)
_m = {"Sta2": ("AA-5", ("Sta1",)), "Sta4": ("AA-4", ("Sta1",)), "Sta13": ("AR-5", ("Sta1",))}
_m.update({s: ("AA-4", ("Sta1",)) for s in _S3_5_12})
_row(TABLE, "Evt17", _m)
_row(TABLE, "Evt18", {"Sta2": ("AA-2", ("Sta1",)), "Sta13": ("AA-2", ("Sta1",))})
_m = {"Sta2": ("AA-1", ("Sta13",)), "Sta13": ("AA-7", ("Sta13",))}
_m.update({s: ("AA-8", ("Sta13",)) for s in _S3_5_12})
_row(TABLE, "Evt19", _m)

# PDU type numbers: 1 RQ, 2 AC, 3 RJ, 4 P-DATA, 5 RELEASE-RQ, 6 RELEASE-RP, 7 ABORT
# indication: what is issued to the service user
#   assoc-ind / assoc-conf-ac / assoc-conf-rj / pdata / release-ind / release-conf / abort-ind / p-abort-ind
# artim: start | stop | restart | None ;  close: transport connection closed by this action
EFFECTS = {
    "AE-1": {"pdu": None, "ind": None, "artim": None, "close": False, "connect": True},
    "AE-2": {"pdu": 1, "ind": None, "artim": None, "close": False},
    "AE-3": {"pdu": None, "ind": "assoc-conf-ac", "artim": None, "close": False},
    "AE-4": {"pdu": None, "ind": "assoc-conf-rj", "artim": None, "close": True},
    "AE-5": {"pdu": None, "ind": None, "artim": "start", "close": False},
    # AE-6: acceptable -> indication, Sta3 ; else RJ (result 1, source 2, reason 2) + start ARTIM, Sta13
    "AE-6": {"pdu": None, "ind": "assoc-ind", "artim": "stop", "close": False,
             "alt": {"pdu": 3, "ind": None, "artim": "start", "close": False, "rj": (1, 2, 2)}},
    "AE-7": {"pdu": 2, "ind": None, "artim": None, "close": False},
    "AE-8": {"pdu": 3, "ind": None, "artim": "start", "close": False},
    "DT-1": {"pdu": 4, "ind": None, "artim": None, "close": False},
    "DT-2": {"pdu": None, "ind": "pdata", "artim": None, "close": False},
    "AR-1": {"pdu": 5, "ind": None, "artim": None, "close": False},
    "AR-2": {"pdu": None, "ind": "release-ind", "artim": None, "close": False},
    "AR-3": {"pdu": None, "ind": "release-conf", "artim": None, "close": True},
    "AR-4": {"pdu": 6, "ind": None, "artim": "start", "close": False},
    "AR-5": {"pdu": None, "ind": None, "artim": "stop", "close": False},
    "AR-6": {"pdu": None, "ind": "pdata", "artim": None, "close": False},
    "AR-7": {"pdu": 4, "ind": None, "artim": None, "close": False},
    "AR-8": {"pdu": None, "ind": "release-ind", "artim": None, "close": False},
    "AR-9": {"pdu": 6, "ind": None, "artim": None, "close": False},
    "AR-10": {"pdu": None, "ind": "release-conf", "artim": None, "close": False},
    # AA-1: A-ABORT PDU with service-user source (0); reason not significant
    "AA-1": {"pdu": 7, "ind": None, "artim": "restart", "close": False, "abort_source": 0},
    "AA-2": {"pdu": None, "ind": None, "artim": "stop", "close": True},
    # AA-3: A-ABORT indication if the received PDU has source 0, A-P-ABORT indication if source 2
    "AA-3": {"pdu": None, "ind": "abort-ind", "artim": None, "close": True},
    "AA-4": {"pdu": None, "ind": "p-abort-ind", "artim": None, "close": False},
    "AA-5": {"pdu": None, "ind": None, "artim": "stop", "close": False},
    "AA-6": {"pdu": None, "ind": None, "artim": None, "close": False},
    "AA-7": {"pdu": 7, "ind": None, "artim": None, "close": False, "abort_source": 2},
    # AA-8: A-ABORT PDU with service-provider source (2), A-P-ABORT indication, start ARTIM
    "AA-8": {"pdu": 7, "ind": "p-abort-ind", "artim": "start", "close": False, "abort_source": 2},
}

assert len([1 for s in STATES for e in EVENTS]) == 247


def defined(state, event):
    return (state, event) in TABLE


def expect(state, event):
    """(action, allowed next states) or None for a blank cell."""
    return TABLE.get((state, event))


def ar8_next(is_requestor):
    return "Sta9" if is_requestor else "Sta10"
