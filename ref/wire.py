"""Independent PS3.8 / PS3.7 wire reader and writer.

Written from the standard's tables; imports nothing from pynetdicom.  Used by the
oracles to say what actually crossed the simulated wire and by the scripted
peer to produce bytes pynetdicom did not produce itself.
"""
import struct

# ----------------------------------------------------------------- PDU framing
PDU_NAMES = {
    1: "A-ASSOCIATE-RQ",
    2: "A-ASSOCIATE-AC",
    3: "A-ASSOCIATE-RJ",
    4: "P-DATA-TF",
    5: "A-RELEASE-RQ",
    6: "A-RELEASE-RP",
    7: "A-ABORT",
}


def frame(stream):
    """Split a byte stream into PDUs.

    Returns (pdus, rest) where pdus is a list of (type, payload, offset) for
    every *complete* PDU and rest is the trailing incomplete bytes.
    """
    out = []
    off = 0
    n = len(stream)
    while n - off >= 6:
        t, _, ln = struct.unpack(">BBL", stream[off:off + 6])
        if n - off - 6 < ln:
            break
        out.append((t, bytes(stream[off + 6:off + 6 + ln]), off))
        off += 6 + ln
    return out, bytes(stream[off:])


def pdu(t, payload):
    return struct.pack(">BBL", t, 0, len(payload)) + payload


# ----------------------------------------------------------------- items
def _items(b, four_byte_len=False):
    """Parse a sequence of (type, reserved, length, value) items."""
    out = []
    off = 0
    while off < len(b):
        if len(b) - off < 4:
            raise ValueError("truncated item header at %d" % off)
        t, _, ln = struct.unpack(">BBH", b[off:off + 4])
        v = b[off + 4:off + 4 + ln]
        if len(v) != ln:
            raise ValueError("item 0x%02x length %d exceeds data" % (t, ln))
        out.append((t, v))
        off += 4 + ln
    return out


def item(t, v):
    return struct.pack(">BBH", t, 0, len(v)) + v


def parse_associate(payload):
    """Parse the payload of an A-ASSOCIATE-RQ or -AC (same layout)."""
    if len(payload) < 68:
        raise ValueError("associate payload too short")
    d = {}
    d["protocol_version"] = struct.unpack(">H", payload[0:2])[0]
    d["called"] = payload[4:20]
    d["calling"] = payload[20:36]
    d["reserved"] = payload[36:68]
    d["app_context"] = []
    d["pcs"] = []      # proposed: {id, abstract: [..], transfer: [..]}
    d["results"] = []  # results:  {id, result, transfer: [..]}
    d["user_info"] = []  # list of list of (type, value)
    d["unknown_items"] = []
    for t, v in _items(payload[68:]):
        if t == 0x10:
            d["app_context"].append(v)
        elif t == 0x20:
            if len(v) < 4:
                raise ValueError("short presentation context item")
            pc = {"id": v[0], "abstract": [], "transfer": [], "other": []}
            for st, sv in _items(v[4:]):
                if st == 0x30:
                    pc["abstract"].append(sv)
                elif st == 0x40:
                    pc["transfer"].append(sv)
                else:
                    pc["other"].append((st, sv))
            d["pcs"].append(pc)
        elif t == 0x21:
            if len(v) < 4:
                raise ValueError("short presentation context result item")
            pc = {"id": v[0], "result": v[2], "transfer": [], "other": []}
            for st, sv in _items(v[4:]):
                if st == 0x40:
                    pc["transfer"].append(sv)
                else:
                    pc["other"].append((st, sv))
            d["results"].append(pc)
        elif t == 0x50:
            d["user_info"].append(_items(v))
        else:
            d["unknown_items"].append((t, v))
    return d


def user_items(d):
    out = []
    for ui in d["user_info"]:
        out.extend(ui)
    return out


def max_length(d):
    for t, v in user_items(d):
        if t == 0x51 and len(v) == 4:
            return struct.unpack(">L", v)[0]
    return None


def role_items(d):
    """{sop class uid bytes: (scu, scp)} from SCP/SCU role selection sub-items."""
    out = {}
    for t, v in user_items(d):
        if t == 0x54:
            ln = struct.unpack(">H", v[0:2])[0]
            uid = v[2:2 + ln]
            out[uid] = (v[2 + ln], v[3 + ln])
    return out


def parse_rj(payload):
    return {"result": payload[1], "source": payload[2], "reason": payload[3]}


def parse_abort(payload):
    return {"source": payload[2], "reason": payload[3]}


def parse_pdata(payload):
    """List of PDVs: (context id, is_command, is_last, data)."""
    out = []
    off = 0
    while off < len(payload):
        if len(payload) - off < 4:
            raise ValueError("truncated PDV length")
        ln = struct.unpack(">L", payload[off:off + 4])[0]
        body = payload[off + 4:off + 4 + ln]
        if len(body) != ln or ln < 2:
            raise ValueError("bad PDV length %d" % ln)
        ctx, hdr = body[0], body[1]
        out.append((ctx, bool(hdr & 1), bool(hdr & 2), bytes(body[2:])))
        off += 4 + ln
    return out


# ----------------------------------------------------------------- writers
def _aet(s):
    if isinstance(s, str):
        s = s.encode("ascii")
    return s.ljust(16, b" ")[:16] if len(s) <= 16 else s


def _uid(u):
    return u.encode("ascii") if isinstance(u, str) else u


def user_info(max_len=16382, impl_uid="1.2.826.0.1.3680043.9.3811.9.9", impl_version=None, extra=()):
    b = b""
    if max_len is not None:
        b += item(0x51, struct.pack(">L", max_len))
    if impl_uid is not None:
        b += item(0x52, _uid(impl_uid))
    for e in extra:
        b += e
    if impl_version is not None:
        b += item(0x55, _uid(impl_version))
    return item(0x50, b)


def role_item(uid, scu, scp):
    u = _uid(uid)
    return item(0x54, struct.pack(">H", len(u)) + u + bytes([scu, scp]))


def user_identity_item(id_type, primary, secondary=b"", response_requested=0):
    return item(
        0x58,
        bytes([id_type, response_requested])
        + struct.pack(">H", len(primary)) + primary
        + struct.pack(">H", len(secondary)) + secondary,
    )


APP_CONTEXT = "1.2.840.10008.3.1.1.1"


def associate_rq(called="ANY-SCP", calling="RAWPEER", contexts=(), max_len=16382,
                 impl_uid="1.2.826.0.1.3680043.9.3811.9.9", impl_version=None,
                 extra_user=(), protocol_version=1, app_context=APP_CONTEXT, raw_user_info=None):
    p = struct.pack(">H", protocol_version) + b"\x00\x00" + _aet(called) + _aet(calling) + b"\x00" * 32
    p += item(0x10, _uid(app_context))
    for cid, ab, tss in contexts:
        sub = item(0x30, _uid(ab))
        for ts in tss:
            sub += item(0x40, _uid(ts))
        p += item(0x20, bytes([cid, 0, 0, 0]) + sub)
    p += raw_user_info if raw_user_info is not None else user_info(max_len, impl_uid, impl_version, extra_user)
    return pdu(1, p)


def associate_ac(called="ANY-SCP", calling="RAWPEER", results=(), max_len=16382,
                 impl_uid="1.2.826.0.1.3680043.9.3811.9.9", impl_version=None, extra_user=(),
                 protocol_version=1, app_context=APP_CONTEXT):
    """results: iterable of (id, result, transfer syntax or None)."""
    p = struct.pack(">H", protocol_version) + b"\x00\x00" + _aet(called) + _aet(calling) + b"\x00" * 32
    p += item(0x10, _uid(app_context))
    for cid, res, ts in results:
        sub = item(0x40, _uid(ts)) if ts is not None else b""
        p += item(0x21, bytes([cid, 0, res, 0]) + sub)
    p += user_info(max_len, impl_uid, impl_version, extra_user)
    return pdu(2, p)


def associate_rj(result=1, source=1, reason=1):
    return pdu(3, bytes([0, result, source, reason]))


def release_rq():
    return pdu(5, b"\x00\x00\x00\x00")


def release_rp():
    return pdu(6, b"\x00\x00\x00\x00")


def abort(source=0, reason=0):
    return pdu(7, bytes([0, 0, source, reason]))


def pdv(ctx, is_command, is_last, data):
    hdr = (1 if is_command else 0) | (2 if is_last else 0)
    body = bytes([ctx, hdr]) + data
    return struct.pack(">L", len(body)) + body


def pdata(pdvs):
    return pdu(4, b"".join(pdv(*p) for p in pdvs))


def fragment(ctx, command, dataset, max_pdu=16382, one_pdu=False, empty_last=False):
    """Encode a DIMSE message as P-DATA-TF PDUs (one PDV per PDU unless
    one_pdu) with PDV data no longer than max_pdu - 6 (0 = unlimited).
    empty_last: the data set's bytes travel in fragments that are not marked last,
    followed by an empty fragment that is (legal, PS3.8 Annex E)."""
    size = (max_pdu - 6) if max_pdu else (1 << 30)
    pdvs = []
    for is_cmd, blob in ((True, command), (False, dataset)):
        if blob is None or (not is_cmd and len(blob) == 0):
            continue
        parts = [blob[i:i + size] for i in range(0, len(blob), size)] or [b""]
        if empty_last and not is_cmd:
            parts = parts + [b""]
        for i, part in enumerate(parts):
            pdvs.append((ctx, is_cmd, i == len(parts) - 1, part))
    if one_pdu:
        return [pdata(pdvs)]
    return [pdata([p]) for p in pdvs]


# ----------------------------------------------------------------- command sets
T_GROUP_LENGTH = 0x00000000
T_AFFECTED_CLASS = 0x00000002
T_REQUESTED_CLASS = 0x00000003
T_COMMAND_FIELD = 0x00000100
T_MESSAGE_ID = 0x00000110
T_MESSAGE_ID_RSP = 0x00000120
T_MOVE_DEST = 0x00000600
T_PRIORITY = 0x00000700
T_DATASET_TYPE = 0x00000800
T_STATUS = 0x00000900
T_OFFENDING = 0x00000901
T_ERROR_COMMENT = 0x00000902
T_ERROR_ID = 0x00000903
T_AFFECTED_INSTANCE = 0x00001000
T_REQUESTED_INSTANCE = 0x00001001
T_EVENT_TYPE = 0x00001002
T_ATTR_ID_LIST = 0x00001005
T_ACTION_TYPE = 0x00001008
T_REMAINING = 0x00001020
T_COMPLETED = 0x00001021
T_FAILED = 0x00001022
T_WARNING = 0x00001023
T_MOVE_ORIG_AET = 0x00001030
T_MOVE_ORIG_ID = 0x00001031

_US = {T_COMMAND_FIELD, T_MESSAGE_ID, T_MESSAGE_ID_RSP, T_PRIORITY, T_DATASET_TYPE, T_STATUS,
       T_ERROR_ID, T_EVENT_TYPE, T_ACTION_TYPE, T_REMAINING, T_COMPLETED, T_FAILED, T_WARNING,
       T_MOVE_ORIG_ID}
_UL = {T_GROUP_LENGTH}
_PAD_NUL = {T_AFFECTED_CLASS, T_REQUESTED_CLASS, T_AFFECTED_INSTANCE, T_REQUESTED_INSTANCE}

CMD = {
    "C-STORE-RQ": 0x0001, "C-STORE-RSP": 0x8001, "C-GET-RQ": 0x0010, "C-GET-RSP": 0x8010,
    "C-FIND-RQ": 0x0020, "C-FIND-RSP": 0x8020, "C-MOVE-RQ": 0x0021, "C-MOVE-RSP": 0x8021,
    "C-ECHO-RQ": 0x0030, "C-ECHO-RSP": 0x8030, "N-EVENT-REPORT-RQ": 0x0100,
    "N-EVENT-REPORT-RSP": 0x8100, "N-GET-RQ": 0x0110, "N-GET-RSP": 0x8110, "N-SET-RQ": 0x0120,
    "N-SET-RSP": 0x8120, "N-ACTION-RQ": 0x0130, "N-ACTION-RSP": 0x8130, "N-CREATE-RQ": 0x0140,
    "N-CREATE-RSP": 0x8140, "N-DELETE-RQ": 0x0150, "N-DELETE-RSP": 0x8150, "C-CANCEL-RQ": 0x0FFF,
}
CMD_NAMES = {v: k for k, v in CMD.items()}


def parse_command(b):
    """Decode an Implicit VR Little Endian group-0000 command set into
    {tag: python value}; raw bytes for types this reader does not interpret."""
    out = {}
    off = 0
    while off < len(b):
        if len(b) - off < 8:
            raise ValueError("truncated command element")
        g, e, ln = struct.unpack("<HHL", b[off:off + 8])
        tag = (g << 16) | e
        v = b[off + 8:off + 8 + ln]
        if len(v) != ln:
            raise ValueError("command element %08x length %d exceeds data" % (tag, ln))
        if tag in _US and ln == 2:
            out[tag] = struct.unpack("<H", v)[0]
        elif tag in _UL and ln == 4:
            out[tag] = struct.unpack("<L", v)[0]
        elif tag in _PAD_NUL:
            out[tag] = v.rstrip(b"\x00").rstrip(b" ")
        else:
            out[tag] = bytes(v)
        off += 8 + ln
    return out


def _elem(tag, v):
    if tag in _US:
        raw = struct.pack("<H", v)
    elif tag in _UL:
        raw = struct.pack("<L", v)
    else:
        raw = v.encode("ascii") if isinstance(v, str) else bytes(v)
        if len(raw) % 2:
            raw += b"\x00" if tag in _PAD_NUL else b" "
    return struct.pack("<HHL", tag >> 16, tag & 0xFFFF, len(raw)) + raw


def command(fields):
    """Encode {tag: value} (group length is computed)."""
    body = b"".join(_elem(t, fields[t]) for t in sorted(fields) if t != T_GROUP_LENGTH)
    return _elem(T_GROUP_LENGTH, len(body)) + body


def rq(name, msg_id, sop_class=None, has_dataset=False, extra=None):
    f = {T_COMMAND_FIELD: CMD[name], T_DATASET_TYPE: 0x0001 if has_dataset else 0x0101}
    if name != "C-CANCEL-RQ":
        f[T_MESSAGE_ID] = msg_id
    else:
        f[T_MESSAGE_ID_RSP] = msg_id
    if sop_class is not None:
        f[T_REQUESTED_CLASS if name in ("N-GET-RQ", "N-SET-RQ", "N-ACTION-RQ", "N-DELETE-RQ") else T_AFFECTED_CLASS] = sop_class
    if name in ("C-STORE-RQ", "C-FIND-RQ", "C-GET-RQ", "C-MOVE-RQ"):
        f[T_PRIORITY] = 0
    if extra:
        f.update(extra)
    return command(f)


def rsp(name, msg_id, status, sop_class=None, has_dataset=False, extra=None):
    f = {T_COMMAND_FIELD: CMD[name], T_MESSAGE_ID_RSP: msg_id, T_STATUS: status,
         T_DATASET_TYPE: 0x0001 if has_dataset else 0x0101}
    if sop_class is not None:
        f[T_AFFECTED_CLASS] = sop_class
    if extra:
        f.update(extra)
    return command(f)


# ----------------------------------------------------------------- reassembly
class Message:
    __slots__ = ("ctx", "command_raw", "command", "dataset", "n_cmd_pdv", "n_ds_pdv",
                 "pdu_index_first", "pdu_index_last", "error", "complete")

    def __init__(self):
        self.ctx = None
        self.command_raw = b""
        self.command = None
        self.dataset = b""
        self.n_cmd_pdv = 0
        self.n_ds_pdv = 0
        self.pdu_index_first = None
        self.pdu_index_last = None
        self.error = None
        self.complete = False

    @property
    def name(self):
        if not self.command:
            return None
        return CMD_NAMES.get(self.command.get(T_COMMAND_FIELD), "0x%04x" % self.command.get(T_COMMAND_FIELD, 0))

    @property
    def is_response(self):
        return bool(self.command and (self.command.get(T_COMMAND_FIELD, 0) & 0x8000))

    @property
    def says_dataset(self):
        return bool(self.command) and self.command.get(T_DATASET_TYPE) != 0x0101

    def summary(self):
        c = self.command or {}
        return {
            "name": self.name, "ctx": self.ctx, "msg_id": c.get(T_MESSAGE_ID),
            "rsp_to": c.get(T_MESSAGE_ID_RSP), "status": c.get(T_STATUS),
            "ds_type": c.get(T_DATASET_TYPE), "ds_len": len(self.dataset), "ds_pdvs": self.n_ds_pdv,
            "complete": self.complete,
        }


def messages(pdus):
    """Reassemble DIMSE messages from a list of (type, payload, offset) PDUs of
    ONE direction.  Returns (messages, problems).  A message is complete when
    its command set ended and, if CommandDataSetType says so, its data set
    ended.  Structural problems (data before command, last-bit misuse) are
    reported, not raised."""
    msgs = []
    problems = []
    cur = None
    state = "idle"  # idle | cmd | await_ds | ds
    for idx, (t, payload, _off) in enumerate(pdus):
        if t != 4:
            continue
        try:
            pdvs = parse_pdata(payload)
        except ValueError as e:
            problems.append("pdu %d: %s" % (idx, e))
            continue
        for ctx, is_cmd, is_last, data in pdvs:
            if is_cmd:
                if state in ("idle",):
                    cur = Message()
                    cur.ctx = ctx
                    cur.pdu_index_first = idx
                    msgs.append(cur)
                    state = "cmd"
                elif state == "await_ds":
                    # previous message announced a data set that never came
                    cur.error = "dataset announced but next command started"
                    problems.append("message %d: %s" % (len(msgs) - 1, cur.error))
                    cur = Message()
                    cur.ctx = ctx
                    cur.pdu_index_first = idx
                    msgs.append(cur)
                    state = "cmd"
                elif state == "ds":
                    problems.append("pdu %d: command PDV inside data set" % idx)
                    cur = Message()
                    cur.ctx = ctx
                    cur.pdu_index_first = idx
                    msgs.append(cur)
                    state = "cmd"
                if ctx != cur.ctx:
                    problems.append("pdu %d: context id changes inside message" % idx)
                cur.command_raw += data
                cur.n_cmd_pdv += 1
                cur.pdu_index_last = idx
                if is_last:
                    try:
                        cur.command = parse_command(cur.command_raw)
                    except ValueError as e:
                        cur.error = "command set: %s" % e
                        problems.append("message %d: %s" % (len(msgs) - 1, cur.error))
                        state = "idle"
                        continue
                    if cur.says_dataset:
                        state = "await_ds"
                    else:
                        cur.complete = True
                        state = "idle"
            else:
                if state in ("await_ds", "ds"):
                    if ctx != cur.ctx:
                        problems.append("pdu %d: context id changes inside message" % idx)
                    cur.dataset += data
                    cur.n_ds_pdv += 1
                    cur.pdu_index_last = idx
                    state = "ds"
                    if is_last:
                        cur.complete = True
                        state = "idle"
                elif state == "cmd":
                    problems.append("pdu %d: data-set PDV before command set ended" % idx)
                else:
                    problems.append("pdu %d: data-set PDV without announcing command set" % idx)
    return msgs, problems
