"""C03 - PDU framing is independent of how TCP splits the byte stream."""
from props import c08 as C08
from props import common as C
from props import lifecycle as L
from props import rawlife as R
from ref import wire as W

ID = "C03"
LEVEL = "fault_enumeration"
TECHNIQUE = "deterministic simulation with enumerated cut points: a scripted peer writes legal PDU sequences whose byte stream is split at every offset (two chunks with a gap, 1-byte dribble, random segments) or ended by close/reset at every offset; the PDUs pynetdicom reports receiving are compared with the wire tap"
RULE = (
    "a case = one reference exchange (associate + C-ECHO / multi-PDU C-STORE / C-FIND, release) played by a scripted peer to a "
    "real acceptor or a real requestor, with the peer's byte stream (a) cut in two at offset k with a gap below the timeouts, "
    "dribbled or randomly segmented, or (b) ended by an orderly close or a reset after exactly k bytes; k enumerated over the "
    "whole stream in the thorough tier and sampled (PDU boundaries +-1, header bytes, every 8th) in the quick tier; checked: "
    "EVT_DATA_RECV payloads equal, in order, the complete PDUs the peer wrote (all of them without a cut; a prefix ending before "
    "the cut PDU otherwise), a connection ending inside a PDU is followed by Evt17 and never by Evt19 or a PDU notification for "
    "the cut PDU; non-trivial = the cut falls strictly inside a PDU; distinct = distinct (exchange, role, mode, k)"
)
STUBS = ["scripted RawPeer"]
EXHAUSTIVE = {"thorough": True, "quick": False}
MODES = ["split", "close", "reset"]


def _mk(role, exch, mode, k, net=None, sched=None, t=0.2):
    sc = C08._mk(role, exch, None, sched=sched, net=net, t=t)
    sc["mode"] = mode
    sc["k"] = k
    if mode == "split":
        sc["split_at"] = k
        sc["split_gap"] = 0.2 * t
    elif mode in ("close", "reset"):
        sc["budget"] = k
        sc["end"] = mode
    return sc


def directed(tier):
    out = []
    for role in ("acceptor", "requestor"):
        for exch in C08.EXCH:
            total = C08.stream_len(role, exch)
            bs = C08.boundaries(role, exch)
            if tier == "thorough":
                ks = list(range(0, total + 1))
            else:
                ks = sorted(set([0, 1, 2, 5, 6, 7] + [b + d for b in bs for d in (-1, 0, 1, 2, 5, 6, 7)] + list(range(0, total, 16))))
                ks = [k for k in ks if 0 <= k <= total]
            for mode in MODES:
                for k in ks:
                    if mode == "split" and (k == 0 or k == total):
                        continue
                    out.append(_mk(role, exch, mode, k))
    return out


def budget(tier):
    if tier == "thorough":
        return {"runs": 3000, "wall": 2400, "selftest": 24, "shrink_s": 30}
    return {"runs": 200, "wall": 300, "selftest": 12, "shrink_s": 15}


def gen(rng, idx, tier):
    role = rng.choice(["acceptor", "requestor"])
    exch = rng.choice(C08.EXCH)
    total = C08.stream_len(role, exch)
    mode = rng.choice(["seg", "seg", "split", "close", "reset"])
    net = {"seg": "whole"}
    if mode == "seg":
        net = rng.choice([{"seg": "dribble", "dribble_max": rng.choice([1, 2, 5]), "dribble_gap": 0.00005},
                          {"seg": "random", "seg_pct": rng.choice([40, 80]), "delays": [0.0, 0.0002, 0.002, 0.01]}])
    k = rng.randrange(0, total + 1)
    if mode == "split":
        k = rng.randrange(1, total)
    return _mk(role, exch, mode, k if mode != "seg" else None, net=net, sched=C.gen_sched(rng, fine_pct=10))


def shrink(sc):
    if sc["sched"] != {"switch_pct": 30}:
        d = dict(sc)
        d["sched"] = {"switch_pct": 30}
        yield d


def execute(sc, ctx):
    return R.execute(sc, ctx)


def check(sc, r):
    out, dead = L.thread_deaths(ID, r)
    if r.failure:
        out.append(C.v("liveness", "C03/run-%s/%s" % (r.failure, sc["mode"]), "run ended %s: %s" % (r.failure, r.failure_info)))
        return out
    lab = R.real_label(sc)
    cid = r.obs.get("cid", 0)
    theirs = "c2s" if sc["role"] == "acceptor" else "s2c"
    peer_wire, rest = C.conn_pdus(r, cid, theirs)
    peer_bytes = [W.pdu(p["type"], p["payload"]) for p in peer_wire]
    ev = r.evts(lab)
    got = [h.get("data") for h in ev if h["evt"] == "EVT_DATA_RECV"]
    got_types = [h["pdu"] for h in ev if h["evt"] == "EVT_PDU_RECV"]
    mode = sc["mode"]
    where = "%s/%s/%s" % (sc["role"], sc["exch"], mode)
    if got != peer_bytes[:len(got)]:
        i = next((i for i in range(min(len(got), len(peer_bytes))) if got[i] != peer_bytes[i]), min(len(got), len(peer_bytes)))
        out.append(C.v("same-pdus", "C03/received-pdu-differs/%s" % where, "received PDU %d differs from what the peer wrote (received %d PDUs, peer wrote %d complete PDUs)" % (i, len(got), len(peer_bytes))))
        return out
    if len(got) > len(peer_bytes):
        out.append(C.v("same-pdus", "C03/extra-pdu/%s" % where, "received %d PDUs, the peer wrote %d complete PDUs" % (len(got), len(peer_bytes))))
    fsm_events = [h["fsm_event"] for h in ev if h["evt"] == "EVT_FSM_TRANSITION"]
    if "Evt19" in fsm_events:
        out.append(C.v("no-invalid-pdu", "C03/evt19-on-legal-stream/%s" % where, "the provider reported an invalid PDU (Evt19) although the peer wrote only legal PDUs (cut at %s)" % sc.get("k")))
    if mode in ("seg", "split", "close"):
        # every complete PDU the peer wrote must have been received: none is lost when the stream is merely cut or closed
        # orderly (the real side may stop reading once it has itself ended the association)
        ended = any(h["evt"] in ("EVT_ABORTED",) for h in ev)
        if len(got) < len(peer_bytes) and not ended and mode != "close":
            out.append(C.v("same-pdus", "C03/pdu-lost/%s" % where, "peer wrote %d complete PDUs, only %d were received" % (len(peer_bytes), len(got))))
        if mode == "close" and len(got) < len(peer_bytes):
            out.append(C.v("same-pdus", "C03/pdu-lost-before-close/%s" % where, "peer wrote %d complete PDUs before closing, only %d were received" % (len(peer_bytes), len(got))))
    if mode in ("close", "reset"):
        # closing part-way through a PDU is a closed connection, never a truncated PDU
        if rest and "Evt17" not in fsm_events and any(h["evt"] == "EVT_CONN_OPEN" for h in ev):
            out.append(C.v("short-read", "C03/no-evt17-after-cut/%s" % where, "connection ended %d bytes into a PDU but the provider never saw Evt17 (events %s)" % (len(rest), fsm_events[-4:])))
    return out


def nontrivial(sc, r):
    if sc["mode"] == "seg":
        return ("seg", sc["role"], sc["exch"], r.digest)
    bs = [0] + C08.boundaries(sc["role"], sc["exch"])
    if sc["k"] not in bs:
        return (sc["mode"], sc["role"], sc["exch"], sc["k"])
    return None


def probes(sc, r):
    lab = R.real_label(sc)
    ev = r.evts(lab)
    d = {"mode_" + sc["mode"]: True, "role_" + sc["role"]: True,
         "pdus_received": len([1 for h in ev if h["evt"] == "EVT_PDU_RECV"]),
         "evt17_seen": any(h["evt"] == "EVT_FSM_TRANSITION" and h["fsm_event"] == "Evt17" for h in ev)}
    if sc["mode"] != "seg":
        bs = [0] + C08.boundaries(sc["role"], sc["exch"])
        d["cut_inside_pdu"] = sc["k"] not in bs
        d["cut_inside_header"] = any(0 < sc["k"] - b < 6 for b in bs)
    return d


def sample(sc, r):
    lab = R.real_label(sc)
    ev = r.evts(lab)
    return {"role": sc["role"], "exchange": sc["exch"], "mode": sc["mode"], "k": sc.get("k"),
            "received": [h["pdu"] for h in ev if h["evt"] == "EVT_PDU_RECV"],
            "fsm_events": [h["fsm_event"] for h in ev if h["evt"] == "EVT_FSM_TRANSITION"], "peer_seen": r.obs.get("peer_seen")}
