"""C27 - event notifications form a well-formed history."""
from props import c05 as C05
from props import common as C
from props import lifecycle as L
from props import rawlife as R

ID = "C27"
LEVEL = "exploration"
TECHNIQUE = "deterministic simulation: recording handlers on all notification events over seeded lifecycle runs (two real AEs, and real AE vs scripted peer); history well-formedness oracle incl. comparison of PDU notifications with the simulated wire tap"
RULE = (
    "a case = a lifecycle run as in C05/C06 (two real AEs with user scripts and optional faults, or one real AE against a "
    "scripted peer) with recording handlers bound to every notification event on every association; checked per association: "
    "FSM transition chain connected from Sta1, connection-open first / connection-close exactly once and last among connection "
    "events, established at most once and before released/aborted, EVT_PDU_SENT/EVT_PDU_RECV/EVT_DATA_RECV equal to the PDUs "
    "on the wire tap; non-trivial = the run contains at least one association that got past negotiation and ended by abort, "
    "collision, fault or peer misbehaviour; distinct = distinct run digests"
)
STUBS = ["scripted RawPeer in the F2 half of the cases"]


def budget(tier):
    if tier == "thorough":
        return {"runs": 12000, "wall": 2400, "selftest": 48, "shrink_s": 60}
    return {"runs": 560, "wall": 300, "selftest": 16, "shrink_s": 30}


def gen(rng, idx, tier):
    return C05.gen(rng, idx, tier)


shrink = C05.shrink
execute = C05.execute


def check(sc, r):
    _dead_v, dead = L.thread_deaths(ID, r)   # thread deaths are C05's business; only skip their associations here
    if r.failure:
        return []
    judge_recv = not (sc["family"] == "F2" and any(st.get("pdu") in ("garbage", "unknown", "raw") or "cut" in st for st in sc["peer"]))
    out = [x for x in L.check_history(ID, r, judge_recv=judge_recv) if not any(("/%s" % d[:3]) in x["sig"] and d in x["msg"] for d in dead)]
    return out


def nontrivial(sc, r):
    cells = set((h["state"], h["fsm_event"]) for h in r.evts(name="EVT_FSM_TRANSITION"))
    if cells - C05.PLAIN:
        return r.digest
    return None


def probes(sc, r):
    d = {"family_" + sc["family"]: True}
    d["associations"] = len(r.final)
    d["notifications"] = len(r.evts())
    d["fault_fired"] = L.fault_fired(r)
    return d


def sample(sc, r):
    hist = {}
    for lab in r.final:
        hist[lab] = [h["evt"][4:] + (":%s+%s" % (h["state"], h["fsm_event"]) if h["evt"] == "EVT_FSM_TRANSITION" else "") for h in r.evts(lab)][:40]
    return {"scenario": sc, "history": hist}
