"""C25 - datasets arrive exactly as sent, for every transfer syntax and storage mode."""
import os
import tempfile

from props import common as C
from props import lifecycle as L
from ref import wire as W

ID = "C25"
LEVEL = "exploration"
TECHNIQUE = "deterministic simulation of two real AEs exchanging seeded pydicom datasets in C-STORE, C-FIND, C-GET and DIMSE-N operations under every uncompressed/deflated transfer syntax, maximum PDU size and chunked send/receive mode; equality oracle at the peer's handler (decoded dataset, raw encoded bytes vs wire tap, file written in chunked-receive mode)"
RULE = (
    "a case = one association between two real AEs with a seeded transfer syntax (implicit/explicit little endian, explicit big "
    "endian, deflated), maximum PDU sizes and chunked-send/chunked-receive switches, carrying a seeded dataset (all VR "
    "families, nested sequences, private block, empty values, odd lengths) in C-STORE, as C-FIND identifier and response, as "
    "N-SET/N-CREATE/N-ACTION/N-EVENT-REPORT data; checked at the peer's handler: the decoded dataset equals the original "
    "element by element, event.encoded_dataset(include_meta=False) equals the data-set bytes that crossed the wire, and in "
    "chunked-receive mode the file at event.dataset_path reads back equal; non-trivial = the dataset has a sequence, private or "
    "empty element, or a non-default transfer syntax / chunked mode is used; distinct = distinct (dataset seed, transfer "
    "syntax, max PDU, mode, operation) tuples (inputs dominate)"
    " In chunked-send mode the file may be encoded in another uncompressed syntax than the one accepted: it must then be refused, nothing sent."
)
TS = [C.IVLE, C.EVLE, C.EVBE, C.DEFL]


def budget(tier):
    if tier == "thorough":
        return {"runs": 8000, "wall": 2400, "selftest": 24, "shrink_s": 40}
    return {"runs": 400, "wall": 300, "selftest": 12, "shrink_s": 20}


def gen(rng, idx, tier):
    return {"ts": rng.choice(TS), "dseed": rng.randrange(10 ** 6), "n_elems": rng.randrange(0, 9),
            "op": rng.choice(["store", "store", "store", "find", "n_set", "n_create", "n_action", "n_event_report"]),
            "scu_max": rng.choice([0, 16, 17, 128, 135, 257, 16382, 16383]), "scp_max": rng.choice([0, 16, 17, 128, 135, 257, 16382, 16383]),
            "chunked_send": rng.randrange(4) == 0, "chunked_recv": rng.randrange(3) == 0,
            # chunked send only: the file is encoded in this syntax (None = the accepted one); a file's bytes are sent
            # as they are, so a file in another syntax than the accepted one must be refused, not sent
            "file_ts": rng.choice([None, None, C.IVLE, C.EVLE, C.DEFL, C.EVBE]),
            "sched": {"switch_pct": rng.choice([5, 30])}, "net": C.gen_net(rng)}


def shrink(sc):
    if sc["n_elems"] > 0:
        d = dict(sc)
        d["n_elems"] = sc["n_elems"] - 1
        yield d
    for k, v in (("chunked_send", False), ("chunked_recv", False), ("scu_max", 16382), ("scp_max", 16382)):
        if sc[k] != v:
            d = dict(sc)
            d[k] = v
            yield d
    if sc["net"] != {"seg": "whole"}:
        d = dict(sc)
        d["net"] = {"seg": "whole"}
        yield d


def make_dataset(seed, n, storage):
    """A seeded dataset drawn from all VR families."""
    import random

    from pydicom.dataset import Dataset
    from pydicom.sequence import Sequence

    rng = random.Random(seed)
    ds = Dataset()
    if storage:
        ds.SOPClassUID = C.CT
        ds.SOPInstanceUID = "1.2.3.%d" % rng.randrange(1, 10 ** 6)
    else:
        ds.QueryRetrieveLevel = "PATIENT"
    makers = [
        lambda: setattr(ds, "PatientName", rng.choice(["Doe^John", "A", "", "Lang^Name^With^Many^Parts"])),
        lambda: setattr(ds, "PatientID", rng.choice(["", "1", "ID 12345", "x" * 63])),
        lambda: setattr(ds, "PatientBirthDate", rng.choice(["", "19700101"])),
        lambda: setattr(ds, "StudyTime", rng.choice(["", "120000", "120000.123"])),
        lambda: setattr(ds, "PatientAge", "045Y"),
        lambda: setattr(ds, "PatientWeight", rng.choice([None, 70.5, "81"])),
        lambda: setattr(ds, "ImageComments", "c" * rng.choice([0, 1, 2, 255])),
        lambda: setattr(ds, "Rows", rng.randrange(0, 65536)),
        lambda: setattr(ds, "ImagePositionPatient", [rng.random(), 1.5, -2.25]),
        lambda: setattr(ds, "PixelData", bytes(rng.randrange(256) for _ in range(rng.choice([0, 2, 10, 300])))),
        lambda: setattr(ds, "ReferencedSOPClassUID", "1.2.840.10008.5.1.4.1.1.%d" % rng.randrange(1, 99)),
        lambda: setattr(ds, "FrameIncrementPointer", [0x00181063]),
        lambda: setattr(ds, "SelectorFDValue", [rng.random()]),
        lambda: setattr(ds, "SelectorSLValue", [-(2 ** 31), 2 ** 31 - 1]),
        lambda: setattr(ds, "SelectorULValue", [0, 2 ** 32 - 1]),
        lambda: setattr(ds, "SelectorSSValue", [-32768, 32767]),
        lambda: setattr(ds, "PersonAddress", "Some\\Street"),
        lambda: _seq(ds, rng),
        lambda: _private(ds, rng),
        lambda: setattr(ds, "SpecificCharacterSet", "ISO_IR 100"),
    ]
    if "PixelData" in ds:
        pass
    for f in rng.sample(makers, min(n, len(makers))):
        f()
    if "PixelData" in ds:
        ds.BitsAllocated = 8
        ds["PixelData"].VR = "OB"
    return ds


def _seq(ds, rng):
    from pydicom.dataset import Dataset
    from pydicom.sequence import Sequence

    items = []
    for i in range(rng.randrange(0, 3)):
        it = Dataset()
        it.ReferencedSOPInstanceUID = "1.2.3.4.%d" % i
        if rng.randrange(2):
            inner = Dataset()
            inner.CodeValue = "T-%d" % i
            inner.CodeMeaning = ""
            it.PurposeOfReferenceCodeSequence = Sequence([inner])
        items.append(it)
    ds.ReferencedImageSequence = Sequence(items)


def _private(ds, rng):
    blk = ds.private_block(0x0099, "VERIF PRIVATE", create=True)
    blk.add_new(0x01, "LO", "private value")
    blk.add_new(0x02, "OB", bytes(rng.randrange(256) for _ in range(rng.choice([0, 1, 7]))))
    blk.add_new(0x03, "US", rng.randrange(65536))


def dsrepr(ds):
    """Comparable rendering of a dataset (tag, VR, value) recursively."""
    out = []
    for e in ds:
        if e.VR == "SQ":
            out.append((int(e.tag), "SQ", [dsrepr(it) for it in e.value]))
        else:
            v = e.value
            if isinstance(v, (bytes, bytearray)):
                v = bytes(v)
                if len(v) % 2:
                    v += b"\x00"
            elif hasattr(v, "__iter__") and not isinstance(v, str):
                v = [str(x) for x in v]
            else:
                v = "" if v is None else str(v)
            out.append((int(e.tag), e.VR if e.VR not in ("OB", "OW", "UN", "OB or OW") else "O*", v))
    return out


def execute(sc, ctx):
    from pynetdicom import evt, _config
    from pydicom.dataset import FileMetaDataset
    from pydicom.uid import UID

    sim = ctx.sim
    seen = ctx.obs["seen"] = []
    old = (_config.STORE_RECV_CHUNKED_DATASET, _config.STORE_SEND_CHUNKED_DATASET)
    _config.STORE_RECV_CHUNKED_DATASET = bool(sc["chunked_recv"])
    _config.STORE_SEND_CHUNKED_DATASET = bool(sc["chunked_send"])
    tmpdir = tempfile.mkdtemp(prefix="dsim-c25-")
    ts = UID(sc["ts"])
    op = sc["op"]
    storage = op == "store"
    ds = make_dataset(sc["dseed"], sc["n_elems"], storage)
    ctx.obs["orig"] = dsrepr(ds)
    try:
        def note(kind, event, attr):
            ent = {"kind": kind}
            try:
                if kind == "store" and _config.STORE_RECV_CHUNKED_DATASET:
                    from pydicom import dcmread

                    ent["file"] = dsrepr(dcmread(event.dataset_path))
                    ent["decoded"] = None
                else:
                    ent["decoded"] = dsrepr(getattr(event, attr))
            except Exception as e:  # noqa: BLE001
                ent["decode_error"] = repr(e)[:200]
            try:
                if kind == "store":
                    ent["encoded"] = event.encoded_dataset(include_meta=False)
            except Exception as e:  # noqa: BLE001
                ent["encoded_error"] = repr(e)[:200]
            seen.append(ent)
            sim.record("handler", op=kind)

        def on_store(event):
            note("store", event, "dataset")
            return 0x0000

        def on_find(event):
            note("find", event, "identifier")
            yield 0xFF00, make_dataset(sc["dseed"] + 1, sc["n_elems"], False)

        def n_h(kind, attr, ret_ds):
            def h(event):
                note(kind, event, attr)
                return 0x0000, (make_dataset(sc["dseed"] + 1, sc["n_elems"], False) if ret_ds else None)
            return h

        scp = ctx.make_ae("SCP", acse=1.0, dimse=1.0, network=2.0, max_pdu=sc["scp_max"])
        for u in (C.CT, C.PR_FIND, C.BASIC_FILM_SESSION, C.PRINTER):
            scp.add_supported_context(u, [sc["ts"]])
        ctx.start_server(scp, handlers=[(evt.EVT_C_STORE, on_store), (evt.EVT_C_FIND, on_find),
                                        (evt.EVT_N_SET, n_h("n_set", "modification_list", True)),
                                        (evt.EVT_N_CREATE, n_h("n_create", "attribute_list", True)),
                                        (evt.EVT_N_ACTION, n_h("n_action", "action_information", True)),
                                        (evt.EVT_N_EVENT_REPORT, n_h("n_event_report", "event_information", True))])
        scu = ctx.make_ae("SCU", acse=1.0, dimse=1.0, network=2.0, max_pdu=sc["scu_max"])
        for u in (C.CT, C.PR_FIND, C.BASIC_FILM_SESSION, C.PRINTER):
            scu.add_requested_context(u, [sc["ts"]])
        assoc = ctx.associate(scu)
        ctx.obs["established"] = assoc.is_established
        if not assoc.is_established:
            return
        res = None
        back = None
        try:
            if op == "store":
                ds.file_meta = FileMetaDataset()
                ds.file_meta.TransferSyntaxUID = ts
                if sc["chunked_send"]:
                    if sc.get("file_ts"):
                        from pydicom.uid import UID

                        ts = UID(sc["file_ts"])
                        ds.file_meta.TransferSyntaxUID = ts
                    ds.file_meta.MediaStorageSOPClassUID = ds.SOPClassUID
                    ds.file_meta.MediaStorageSOPInstanceUID = ds.SOPInstanceUID
                    path = os.path.join(tmpdir, "in.dcm")
                    ds.save_as(path, enforce_file_format=True, implicit_vr=ts.is_implicit_VR, little_endian=ts.is_little_endian)
                    st = assoc.send_c_store(path)
                else:
                    st = assoc.send_c_store(ds)
                res = st.Status if st is not None and "Status" in st else "empty"
            elif op == "find":
                out = list(assoc.send_c_find(ds, C.PR_FIND))
                res = [s.Status if s is not None and "Status" in s else "empty" for s, _ in out]
                back = [dsrepr(i) for s, i in out if i is not None]
            else:
                inst = "1.2.840.10008.5.1.1.17"
                if op == "n_set":
                    st, rds = assoc.send_n_set(ds, C.BASIC_FILM_SESSION, "1.2.3.4")
                elif op == "n_create":
                    st, rds = assoc.send_n_create(ds, C.BASIC_FILM_SESSION, "1.2.3.4")
                elif op == "n_action":
                    st, rds = assoc.send_n_action(ds, 1, C.BASIC_FILM_SESSION, "1.2.3.4")
                else:
                    st, rds = assoc.send_n_event_report(ds, 1, C.PRINTER, inst)
                res = st.Status if st is not None and "Status" in st else "empty"
                back = [dsrepr(rds)] if rds is not None else []
        except Exception as e:  # noqa: BLE001 - e.g. the dataset cannot be encoded in this syntax: not a case
            res = "raised:%s:%s" % (type(e).__name__, str(e)[:100])
        ctx.obs["result"] = res
        ctx.obs["back"] = back
        ctx.obs["back_expected"] = dsrepr(make_dataset(sc["dseed"] + 1, sc["n_elems"], False))
        if assoc.is_established:
            assoc.release()
        ctx.wait_until(lambda: not any(a.is_alive() or a.dul.is_alive() for a in ctx.assocs.values()), 3.0, step=0.005)
    finally:
        _config.STORE_RECV_CHUNKED_DATASET, _config.STORE_SEND_CHUNKED_DATASET = old
        import shutil

        shutil.rmtree(tmpdir, ignore_errors=True)


def _wire_dataset(r, name):
    pdus, _ = C.conn_pdus(r, 0, "c2s")
    msgs, _ = W.messages(C.as_frames(pdus))
    for m in msgs:
        if m.name == name:
            return m.dataset
    return None


def check(sc, r):
    out, dead = L.thread_deaths(ID, r)
    if r.failure:
        out.append(C.v("liveness", "C25/run-%s" % r.failure, "run ended %s" % r.failure))
        return out
    if not r.obs.get("established"):
        return out
    res = r.obs.get("result")
    op = sc["op"]
    if op == "store" and sc["chunked_send"] and sc.get("file_ts") and sc["file_ts"] != sc["ts"]:
        # the file's bytes are in another transfer syntax than the only accepted context's: nothing may be sent
        sent = _wire_dataset(r, "C-STORE-RQ")
        if not (isinstance(res, str) and res.startswith("raised:ValueError")) or sent is not None:
            out.append(C.v("chunked-send", "C25/file-sent-under-other-syntax", "a file encoded in %s was sent in chunked mode on an association whose only context for it uses %s (result %r)" % (sc["file_ts"], sc["ts"], res)))
        return out
    if isinstance(res, str) and res.startswith("raised:"):
        return out
    tsn = {C.IVLE: "ivle", C.EVLE: "evle", C.EVBE: "evbe", C.DEFL: "deflated"}[sc["ts"]]
    mode = "%s%s" % ("chunked-send" if sc["chunked_send"] and op == "store" else "memory-send", "+chunked-recv" if sc["chunked_recv"] and op == "store" else "")
    seen = [s for s in r.obs.get("seen", []) if s["kind"] == op]
    if not seen:
        out.append(C.v("delivered", "C25/not-delivered/%s/%s" % (op, tsn), "the peer's %s handler never ran (result %r)" % (op, res)))
        return out
    s = seen[0]
    orig = r.obs["orig"]
    imp = sc["ts"] == C.IVLE
    if s.get("decode_error"):
        out.append(C.v("decoded", "C25/handler-cannot-decode/%s/%s/%s" % (op, tsn, mode), "decoding at the peer's handler failed: %s" % s["decode_error"]))
    else:
        got = s.get("file") if s.get("decoded") is None else s["decoded"]
        if got is not None and _norm(got, imp) != _norm(orig, imp):
            which = "file" if s.get("decoded") is None else "decoded"
            diff = _first_diff(_norm(orig, imp), _norm(got, imp))
            out.append(C.v("decoded", "C25/dataset-differs/%s/%s/%s/%s" % (op, tsn, mode, which), "dataset at the peer's handler differs from the original: %s" % (diff,)))
    if op == "store" and not sc["chunked_recv"]:
        # (in chunked-receive mode the data set is only available from the file at event.dataset_path - checked above)
        wire = _wire_dataset(r, "C-STORE-RQ")
        if s.get("encoded_error"):
            out.append(C.v("encoded", "C25/encoded-dataset-error/%s/%s" % (tsn, mode), "event.encoded_dataset() failed: %s" % s["encoded_error"]))
        elif wire is not None and s.get("encoded") is not None and s["encoded"] != wire:
            out.append(C.v("encoded", "C25/encoded-dataset-differs/%s/%s" % (tsn, mode), "event.encoded_dataset(include_meta=False) returned %d bytes, %d data-set bytes crossed the wire" % (len(s["encoded"]), len(wire))))
    back = r.obs.get("back")
    if back and op in ("find", "n_set", "n_create", "n_action", "n_event_report"):
        if _norm(back[0], imp) != _norm(r.obs["back_expected"], imp):
            out.append(C.v("decoded", "C25/response-dataset-differs/%s/%s" % (op, tsn), "dataset returned by the handler differs at the requestor: %s" % (_first_diff(_norm(r.obs["back_expected"], imp), _norm(back[0], imp)),)))
    return out


def _norm(rep, implicit=False):
    """Ignore elements the transport legitimately adds or drops (group lengths)."""
    out = []
    for tag, vr, v in rep:
        if tag & 0xFFFF == 0:
            continue
        if vr == "SQ":
            v = [_norm(x, implicit) for x in v]
        elif (tag >> 16) & 1 and (tag & 0xFFFF) > 0xFF:
            # private data element: under implicit VR its VR is not transmitted (it is read back as UN bytes), so only
            # presence is comparable; under explicit VR compare the value as a padded-insensitive string
            v = "<private>" if implicit else _flat(v)
        else:
            v = _flat(v)
        out.append((tag, v))
    return out


def _flat(v):
    """Value rendering insensitive to str/bytes of empty values and to even-length padding."""
    if isinstance(v, (bytes, bytearray)):
        return bytes(v).rstrip(b"\x00 ").decode("latin1")
    if isinstance(v, list):
        return [str(x).rstrip("\x00 ") for x in v]
    return str(v).rstrip("\x00 ")


def _first_diff(a, b):
    for i in range(max(len(a), len(b))):
        x = a[i] if i < len(a) else None
        y = b[i] if i < len(b) else None
        if x != y:
            return {"index": i, "original": repr(x)[:120], "received": repr(y)[:120]}
    return None


def nontrivial(sc, r):
    if sc["n_elems"] >= 2 or sc["ts"] != C.IVLE or sc["chunked_send"] or sc["chunked_recv"]:
        return (sc["dseed"], sc["n_elems"], sc["ts"], sc["scu_max"], sc["scp_max"], sc["chunked_send"], sc["chunked_recv"], sc["op"])
    return None


def probes(sc, r):
    d = {"op_" + sc["op"]: True, "ts_" + sc["ts"]: True, "chunked_send": sc["chunked_send"] and sc["op"] == "store",
         "chunked_recv": sc["chunked_recv"] and sc["op"] == "store"}
    res = r.obs.get("result")
    d["api_refused_dataset"] = isinstance(res, str) and res.startswith("raised:")
    return d


def sample(sc, r):
    return {"scenario": {k: v for k, v in sc.items() if k not in ("sched", "net")}, "elements": [(hex(t), vr) for t, vr, _ in r.obs.get("orig", [])][:14],
            "result": r.obs.get("result")}
