"""SCP behaviour engine (family F1): a real SCU drives one DIMSE request against
a real SCP whose intervention handler behaves as scripted.  Shared by C20, C21,
C22 and C26.  Also extracts, with the independent wire reader, the responses
the SCP wrote for the request."""
from props import common as C
from ref import wire as W

OPS = ["echo", "store", "find", "get", "move", "n_get", "n_set", "n_action", "n_create", "n_delete", "n_event_report"]
GEN_OPS = ("find", "get", "move")
N_PAIR_OPS = ("n_get", "n_set", "n_action", "n_create", "n_event_report")

STATUS_POOL = {
    "echo": [0x0000, 0x0122, 0x0210, 0x0211, 0x0212],
    "store": [0x0000, 0xB000, 0xB006, 0xB007, 0xA700, 0xA900, 0xC000, 0x0117, 0x0122, 0x0124],
    "find": [0xFF00, 0xFF01, 0x0000, 0xFE00, 0xA700, 0xA900, 0xC000, 0xC123, 0x0122, 0xB000, 0xB001, 0x0107, 0x0001],
    "get": [0xFF00, 0x0000, 0xFE00, 0xA701, 0xA702, 0xA900, 0xB000, 0xC000],
    "move": [0xFF00, 0x0000, 0xFE00, 0xA701, 0xA702, 0xA801, 0xA900, 0xB000, 0xC000],
    "n": [0x0000, 0x0110, 0x0112, 0x0117, 0x0119, 0x0211, 0x0213, 0x0107, 0x0116, 0x0001],
}
UNKNOWN_STATUS = [0x0002, 0xFFF0, 0x1234, 0xDEAD]
BAD_STATUS = [-1, 0x10000, 70000]


def gen_status_spec(rng, op, prefer_pending=False):
    pool = STATUS_POOL.get(op, STATUS_POOL["n"])
    k = rng.randrange(100)
    if prefer_pending and k < 55:
        return {"t": "int", "v": 0xFF00}
    if k < 55:
        d = {"t": "int", "v": rng.choice(pool)}
        if rng.randrange(4) == 0:
            d["enum"] = True      # the same value as an IntEnum member (pynetdicom.status.Status style): still an int
        return d
    if k < 65:
        return {"t": "int", "v": rng.choice(UNKNOWN_STATUS)}
    if k < 70:
        return {"t": "int", "v": rng.choice(BAD_STATUS)}
    if k < 82:
        d = {"t": "ds", "v": rng.choice(pool)}
        if rng.randrange(2):
            d["comment"] = "some comment"
        if rng.randrange(3) == 0:
            d["offending"] = True
        if rng.randrange(6) == 0:
            d["foreign_msg_id"] = True      # a status dataset that (wrongly) carries command-set identification elements
        return d
    if k < 87:
        return {"t": "ds_nostatus"}
    if k < 91:
        return {"t": "none"}
    if k < 95:
        return {"t": "str"}
    return {"t": "raise"}


def gen_behaviour(rng, op):
    if op in ("echo", "store", "n_delete"):
        return {"ret": gen_status_spec(rng, op if op != "n_delete" else "n")}
    if op in N_PAIR_OPS:
        b = {"ret": gen_status_spec(rng, "n"), "ds": rng.choice(["ds", "ds", "none", "empty", "str"]),
             "shape": rng.choice(["pair", "pair", "pair", "pair", "single", "triple", "none"])}
        if op == "n_create":
            # PS3.7 10.1.5: the SCU may leave the Affected SOP Instance UID out, the SCP (= the handler) then assigns it
            b["create_uid"] = rng.choice(["rq", "rq", "handler", "missing", "handler_bad"])
        return b
    # generator handlers
    b = {"mode": rng.choice(["gen", "gen", "gen", "gen", "gen", "list", "none", "raise_first", "ret_int", "ret_obj"])}
    n = rng.randrange(0, 5)
    if op in ("get", "move"):
        b["count"] = rng.choice([n, n, n, max(0, n - 1), n + 1, 0, "str", None])
    if op == "move":
        b["dest"] = rng.choice(["ok", "ok", "ok", "ok", "none", "bad", "refused"])
    items = []
    for i in range(n):
        k = rng.randrange(100)
        if k < 70:
            items.append({"status": gen_status_spec(rng, op, prefer_pending=True),
                          "ds": rng.choice(["ds", "ds", "ds", "ds", "none", "empty", "str"])})
        elif k < 80:
            items.append({"raise": True})
        elif k < 88:
            items.append({"bare": rng.choice([0xFF00, 0, "x"])})
        else:
            items.append({"status": {"t": "int", "v": 0xFF00}, "ds": "ds", "sleep": 0.002})
    b["items"] = items
    if op in ("get", "move"):
        # "odd:<status>": the storage SCP answers the sub-operation with a status that is neither a Storage service
        # status nor a general one (or is a Pending / Cancel code, meaningless for C-STORE)
        b["store"] = [rng.choice(["ok", "ok", "ok", "warn", "fail", "raise", rng.choice(["odd:4660", "odd:53248", "odd:512", "odd:65280", "odd:65024"])])
                      for _ in range(len(items) + 1)]
    return b


def mk_status(spec):
    from pydicom.dataset import Dataset

    t = spec["t"]
    if t == "int":
        if spec.get("enum") and 0 <= spec["v"] <= 0xFFFF:
            import enum

            return enum.IntEnum("HandlerStatus", {"VALUE": spec["v"]}).VALUE
        return spec["v"]
    if t == "ds":
        ds = Dataset()
        ds.Status = spec["v"]
        if spec.get("comment"):
            ds.ErrorComment = spec["comment"]
        if spec.get("offending"):
            ds.OffendingElement = [0x00100010]
        if spec.get("foreign_msg_id"):
            ds.MessageIDBeingRespondedTo = 4321
        return ds
    if t == "ds_nostatus":
        ds = Dataset()
        ds.ErrorComment = "no status here"
        return ds
    if t == "none":
        return None
    if t == "str":
        return "0x0000"
    raise HandlerError("scripted handler failure")


class HandlerError(Exception):
    pass


def mk_ds(kind, i=0, op="find"):
    from pydicom.dataset import Dataset

    if kind == "none":
        return None
    if kind == "empty":
        return Dataset()
    if kind == "str":
        return "not a dataset"
    if op in ("get", "move"):
        return C.store_ds(i)
    return C.small_ds(i)


def execute(sc, ctx):
    from pynetdicom import evt, build_role

    sim = ctx.sim
    op, b = sc["op"], sc["beh"]
    inter = sc.get("interfere") or {}

    def note(name, event):
        sim.record("handler", op=name, assoc=ctx.label(event.assoc), msg_id=getattr(event.request, "MessageID", None),
                   ctx_id=event.context.context_id)

    def ret_handler(name):
        def h(event):
            note(name, event)
            return mk_status(b["ret"])
        return h

    def pair_handler(name):
        def h(event):
            note(name, event)
            st = mk_status(b["ret"])
            ds = mk_ds(b["ds"], 0)
            if name == "n_create" and b.get("create_uid") in ("handler", "handler_bad") and hasattr(ds, "PatientID"):
                ds.AffectedSOPInstanceUID = "1.2.3.4.99" if b["create_uid"] == "handler" else "not/a uid" * 9
            sh = b["shape"]
            if sh == "pair":
                return st, ds
            if sh == "single":
                return st
            if sh == "triple":
                return st, ds, None
            return None
        return h

    def gen_items(event, name):
        for i, it in enumerate(b["items"]):
            if it.get("sleep"):
                ctx.sleep(it["sleep"])
            sim.record("handler_yield", op=name, i=i)
            if it.get("raise"):
                raise HandlerError("scripted failure at item %d" % i)
            if "bare" in it:
                yield it["bare"]
                continue
            yield mk_status(it["status"]), mk_ds(it["ds"], i, name)

    def pre(event, name):
        if name == "move":
            d = b["dest"]
            if d == "ok":
                yield "127.0.0.1", 11113
            elif d == "none":
                yield None, None
            elif d == "refused":
                yield "127.0.0.1", 11999
            else:
                yield "not an address"
        if name in ("get", "move"):
            yield b["count"]

    def gen_handler(name):
        def h(event):
            note(name, event)
            mode = b["mode"]
            if mode == "raise_first":
                raise HandlerError("scripted failure before the first yield")
            if mode == "none":
                return None
            if mode == "ret_int":
                return 0x0000  # "return" instead of "yield": not iterable
            if mode == "ret_obj":
                return object()
            if mode == "list":
                return list(pre(event, name)) + [(mk_status(it["status"]), mk_ds(it["ds"], i, name)) for i, it in enumerate(b["items"]) if "status" in it and it["status"]["t"] != "raise"]

            def g():
                for x in pre(event, name):
                    yield x
                for x in gen_items(event, name):
                    yield x
            return g()
        return h

    store_n = {"n": 0}

    def on_store_sub(event):
        # C-STORE sub-operation outcome as scripted (GET: at the requestor; MOVE: at the destination AE)
        i = store_n["n"]
        store_n["n"] += 1
        outs = b.get("store") or ["ok"]
        o = outs[min(i, len(outs) - 1)]
        sim.record("handler", op="store_sub", i=i, outcome=o, assoc=ctx.label(event.assoc))
        if o == "ok":
            return 0x0000
        if o == "warn":
            return 0xB000
        if o == "fail":
            return 0xA700
        if o.startswith("odd:"):
            return int(o[4:])
        raise HandlerError("scripted store failure")

    hh = [(evt.EVT_C_ECHO, ret_handler("echo")), (evt.EVT_C_STORE, ret_handler("store")),
          (evt.EVT_C_FIND, gen_handler("find")), (evt.EVT_C_GET, gen_handler("get")), (evt.EVT_C_MOVE, gen_handler("move")),
          (evt.EVT_N_GET, pair_handler("n_get")), (evt.EVT_N_SET, pair_handler("n_set")), (evt.EVT_N_ACTION, pair_handler("n_action")),
          (evt.EVT_N_CREATE, pair_handler("n_create")), (evt.EVT_N_EVENT_REPORT, pair_handler("n_event_report")),
          (evt.EVT_N_DELETE, ret_handler("n_delete"))]
    t = sc.get("timeout", 0.6)
    scp = ctx.make_ae("SCP", acse=t, dimse=t, network=2 * t, max_pdu=sc.get("max_pdu", 16382))
    for u in (C.VERIFICATION, C.PR_FIND, C.PR_GET, C.PR_MOVE, C.PRINTER, C.BASIC_FILM_SESSION):
        scp.add_supported_context(u)
    scp.add_supported_context(C.CT, scu_role=True, scp_role=True)
    scp.add_requested_context(C.CT)
    ctx.start_server(scp, handlers=hh)
    dest = ctx.make_ae("DEST", acse=t, dimse=t, network=2 * t)
    dest.add_supported_context(C.CT)
    ctx.start_server(dest, port=11113, handlers=[(evt.EVT_C_STORE, on_store_sub)])
    scu = ctx.make_ae("SCU", acse=t, dimse=t, network=2 * t, max_pdu=sc.get("max_pdu", 16382))
    for u in (C.VERIFICATION, C.PR_FIND, C.PR_GET, C.PR_MOVE, C.PRINTER, C.BASIC_FILM_SESSION, C.CT):
        scu.add_requested_context(u)
    assoc = ctx.associate(scu, handlers=[(evt.EVT_C_STORE, on_store_sub)], ext_neg=[build_role(C.CT, scu_role=True, scp_role=True)])
    ctx.obs["established"] = assoc.is_established
    if not assoc.is_established:
        return
    mid = sc.get("msg_id", 5)
    inst = "1.2.840.10008.5.1.1.17"
    out = ctx.obs["yielded"] = []
    if inter.get("kind"):
        def interferer():
            ctx.sleep(inter.get("after", 0.0))
            k = inter["kind"]
            sim.record("interfere", what=k)
            try:
                if k == "abort":
                    assoc.abort()
                elif k == "cancel":
                    assoc.send_c_cancel(mid, query_model={"find": C.PR_FIND, "get": C.PR_GET, "move": C.PR_MOVE}.get(op, C.PR_FIND))
            except Exception as e:  # noqa: BLE001
                sim.record("interfere_error", exc=repr(e))
        ith = ctx.spawn(interferer, "interferer")
    sim.record("user_op", op=op, phase="call", msg_id=mid)
    try:
        if op == "echo":
            out.append((_st(assoc.send_c_echo(msg_id=mid)), None))
        elif op == "store":
            out.append((_st(assoc.send_c_store(C.store_ds(0), msg_id=mid)), None))
        elif op in GEN_OPS:
            ident = C.small_ds(0)
            it = {"find": lambda: assoc.send_c_find(ident, C.PR_FIND, msg_id=mid),
                  "get": lambda: assoc.send_c_get(ident, C.PR_GET, msg_id=mid),
                  "move": lambda: assoc.send_c_move(ident, "DEST", C.PR_MOVE, msg_id=mid)}[op]()
            for st, ds in it:
                out.append((_full(st), _dsrepr(ds)))
        elif op == "n_get":
            st, ds = assoc.send_n_get([0x00100010], C.PRINTER, inst, msg_id=mid)
            out.append((_full(st), _dsrepr(ds)))
        elif op == "n_set":
            st, ds = assoc.send_n_set(C.small_ds(1), C.BASIC_FILM_SESSION, "1.2.3.4", msg_id=mid)
            out.append((_full(st), _dsrepr(ds)))
        elif op == "n_action":
            st, ds = assoc.send_n_action(C.small_ds(1), 1, C.BASIC_FILM_SESSION, "1.2.3.4", msg_id=mid)
            out.append((_full(st), _dsrepr(ds)))
        elif op == "n_create":
            st, ds = assoc.send_n_create(C.small_ds(1), C.BASIC_FILM_SESSION,
                                         "1.2.3.4" if b.get("create_uid", "rq") == "rq" else None, msg_id=mid)
            out.append((_full(st), _dsrepr(ds)))
        elif op == "n_delete":
            out.append((_full(assoc.send_n_delete(C.BASIC_FILM_SESSION, "1.2.3.4", msg_id=mid)), None))
        elif op == "n_event_report":
            st, ds = assoc.send_n_event_report(C.small_ds(1), 1, C.PRINTER, inst, msg_id=mid)
            out.append((_full(st), _dsrepr(ds)))
    except Exception as e:  # noqa: BLE001
        out.append(("raised:%s" % type(e).__name__, str(e)[:100]))
    sim.record("user_op", op=op, phase="return", msg_id=mid)
    if inter.get("kind"):
        ith.join()
    if sc.get("second_echo") and assoc.is_established:
        ctx.obs["second_echo"] = _st(assoc.send_c_echo(msg_id=2))
    if assoc.is_established:
        assoc.release()
    ctx.obs["final"] = ctx.assoc_state(assoc)
    ctx.wait_until(lambda: not any(a.is_alive() or a.dul.is_alive() for a in ctx.assocs.values()), 3 * t + 1, step=0.005)


def _st(st):
    if st is None or "Status" not in st:
        return "empty"
    return st.Status


def _full(st):
    if st is None or "Status" not in st:
        return "empty"
    d = {"Status": st.Status}
    for k in ("ErrorComment", "OffendingElement", "NumberOfRemainingSuboperations", "NumberOfCompletedSuboperations",
              "NumberOfFailedSuboperations", "NumberOfWarningSuboperations", "ErrorID"):
        if k in st:
            v = st[k].value
            d[k] = list(v) if isinstance(v, (list, tuple)) or hasattr(v, "__iter__") and not isinstance(v, str) else v
    return d


def _dsrepr(ds):
    if ds is None:
        return None
    try:
        return sorted((str(e.tag), str(e.value)) for e in ds)
    except Exception as e:  # noqa: BLE001
        return "unreadable:%r" % (e,)


# ------------------------------------------------------------------ wire extraction
def request_and_responses(sc, r, cid=0):
    """The request the SCU wrote (first request message with the scenario's
    message id on c2s) and, in wire order, the responses with that id that the
    SCP wrote on s2c, plus the seq of the first A-ABORT/A-RELEASE/close on the wire."""
    mid = sc.get("msg_id", 5)
    c2s, _ = C.conn_pdus(r, cid, "c2s")
    s2c, _ = C.conn_pdus(r, cid, "s2c")
    rq_msgs, _ = W.messages(C.as_frames(c2s))
    rs_msgs, probs = W.messages(C.as_frames(s2c))
    rq = next((m for m in rq_msgs if m.command and not m.is_response and m.command.get(W.T_MESSAGE_ID) == mid and m.name != "C-STORE-RQ" or
               (m.command and not m.is_response and m.command.get(W.T_MESSAGE_ID) == mid and sc["op"] == "store")), None)
    rsps = [m for m in rs_msgs if m.command and m.is_response and m.command.get(W.T_MESSAGE_ID_RSP) == mid
            and not (m.name == "C-STORE-RSP" and sc["op"] != "store")]
    # index of the PDU at which each response ended, to order against abort/release
    ends = []
    for d, pdus in (("c2s", c2s), ("s2c", s2c)):
        for p in pdus:
            if p["type"] in (5, 6, 7):
                ends.append((p["seq"], d, p["type"]))
    ends.sort()
    return rq, rsps, ends, s2c, probs


def rsp_info(m, s2c):
    c = m.command
    return {
        "name": m.name, "ctx": m.ctx, "status": c.get(W.T_STATUS), "rsp_to": c.get(W.T_MESSAGE_ID_RSP),
        "remaining": c.get(W.T_REMAINING), "completed": c.get(W.T_COMPLETED), "failed": c.get(W.T_FAILED),
        "warning": c.get(W.T_WARNING), "ds_len": len(m.dataset), "dataset": m.dataset,
        "comment": c.get(W.T_ERROR_COMMENT), "offending": c.get(W.T_OFFENDING),
        "seq": s2c[m.pdu_index_last]["seq"] if m.pdu_index_last is not None and m.pdu_index_last < len(s2c) else None,
    }


def is_pending(st):
    return st in (0xFF00, 0xFF01)
