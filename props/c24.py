"""C24 - SCU calls surface each response exactly once and fail cleanly."""
import struct

from dsim.rawpeer import RawPeer
from props import common as C
from props import lifecycle as L
from props import rawlife as R
from ref import wire as W

ID = "C24"
LEVEL = "exploration"
TECHNIQUE = "deterministic simulation: real requestor calling the send_* API against a scripted SCP that replies with seeded response streams (valid, invalid, wrong type, undecodable identifier, silence, abort, interleaved C-STORE sub-operations); reference SCU oracle on the yielded pairs, plus a second simulated user thread probing the AE lock while the response iterator is suspended"
RULE = (
    "a case = one C-ECHO/C-STORE/C-FIND/C-GET/C-MOVE/N-GET/N-SET call by a real requestor; the scripted acceptor answers with a seeded "
    "stream: 0-4 Pending responses (identifier decodable or not), interleaved C-STORE sub-operation requests (C-GET), then a "
    "final response of some category (command and data-set PDVs in separate PDUs or packed into one; message IDs 0, 1, 3, 65535), or an invalid response (no Status), a response of another message type, the first PDU of a response and then nothing, silence until "
    "the DIMSE timeout, or an A-ABORT; checked: the caller gets one (status, identifier) pair per response in order and stops at "
    "the first non-Pending one; in the failure cases exactly one empty result and an A-ABORT on the wire; while the iterator is "
    "suspended a second user thread binds a handler, changes a timeout and creates an Association object within a virtual-time "
    "bound (AE lock not held); non-trivial = the stream contains something other than valid Pending*+Success; distinct = "
    "distinct (operation, response stream) descriptions x schedule digests"
)
STUBS = ["scripted RawPeer (acceptor / SCP)"]


def budget(tier):
    if tier == "thorough":
        return {"runs": 12000, "wall": 2400, "selftest": 32, "shrink_s": 60}
    return {"runs": 520, "wall": 300, "selftest": 12, "shrink_s": 30}


def gen(rng, idx, tier):
    op = rng.choice(["find", "find", "find", "get", "move", "echo", "store", "n_get", "n_set"])
    stream = []
    if op in ("find", "get", "move"):
        for _ in range(rng.randrange(0, 5)):
            k = rng.randrange(10)
            if k < 6:
                stream.append({"kind": "pending", "ident": "ok" if op == "find" else "none"})
            elif k < 8 and op == "find":
                stream.append({"kind": "pending", "ident": "bad"})
            elif op == "get":
                stream.append({"kind": "store_rq"})
            else:
                stream.append({"kind": "pending", "ident": "ok" if op == "find" else "none"})
    end = rng.choice(["final", "final", "final", "final", "invalid", "silence", "abort", "partial"] + (["wrong_type"] if op in ("find", "get", "move") else []))
    if end == "final":
        pool = {"find": [0x0000, 0xA700, 0xFE00, 0xC001], "get": [0x0000, 0xB000, 0xA702, 0xFE00], "move": [0x0000, 0xB000, 0xA801, 0xFE00]}.get(op, [0x0000, 0x0110, 0xB000, 0xC000])
        st = rng.choice(pool)
        stream.append({"kind": "final", "status": st, "ident": "failed_list" if (op in ("get", "move") and st in (0xB000, 0xA702, 0xFE00) and rng.randrange(2)) else "none"})
    else:
        stream.append({"kind": end})
    net = C.gen_net(rng)
    dimse = rng.choice([0.05, 0.1])
    if net.get("seg") == "dribble":
        dimse = 0.5     # a byte-by-byte dribble of one response must not outlast the DIMSE timeout
    return {"op": op, "stream": stream, "gap": rng.choice([0.0, 0.0005, 0.002]), "probe_lock": rng.randrange(3) > 0,
            "msg_id": rng.choice([0, 1, 3, 65535]), "pack": rng.choice(["separate", "separate", "one_pdu", "empty_last", "one_pdu+empty_last"]),
            "dimse": dimse, "sched": C.gen_sched(rng, fine_pct=25), "net": net}


def shrink(sc):
    import copy

    for i in range(len(sc["stream"]) - 1):
        d = copy.deepcopy(sc)
        del d["stream"][i]
        yield d
    if sc["net"] != {"seg": "whole"}:
        d = copy.deepcopy(sc)
        d["net"] = {"seg": "whole"}
        yield d
    if sc["sched"].get("line_gap") or sc["sched"].get("sleep_jitter_pct"):
        d = copy.deepcopy(sc)
        d["sched"] = {"switch_pct": sc["sched"].get("switch_pct", 30)}
        yield d
    if sc["probe_lock"]:
        d = copy.deepcopy(sc)
        d["probe_lock"] = False
        yield d


RSP_NAME = {"find": "C-FIND-RSP", "get": "C-GET-RSP", "move": "C-MOVE-RSP", "echo": "C-ECHO-RSP", "store": "C-STORE-RSP",
            "n_get": "N-GET-RSP", "n_set": "N-SET-RSP"}
SOP = {"find": C.PR_FIND, "get": C.PR_GET, "move": C.PR_MOVE, "echo": C.VERIFICATION, "store": C.MR, "n_get": C.PRINTER, "n_set": C.BASIC_FILM_SESSION}
# an undefined-length sequence whose item never ends: pydicom raises while decoding it
BAD_IDENT = b"\x08\x00\x40\x11\xff\xff\xff\xff\xfe\xff\x00\xe0\xff\xff\xff\xff\x08\x00"
FAILED_LIST = struct.pack("<HHL", 8, 0x58, 10) + b"1.2.3.4.5\x00"


def execute(sc, ctx):
    from pynetdicom import evt, build_role

    sim = ctx.sim
    op = sc["op"]
    mid = sc.get("msg_id", 3)
    # the peer may put the command-set PDV and the data-set PDV of one message into a single P-DATA-TF
    one_pdu = "one_pdu" in (sc.get("pack") or "")
    empty_last = "empty_last" in (sc.get("pack") or "")
    p = RawPeer(ctx)
    p.listen(11113)
    stores = ctx.obs["store_handler"] = []

    def read_request():
        """Read P-DATA until one complete DIMSE message arrived; returns its context id."""
        cmd, need_ds, cx = None, None, None
        for _ in range(40):
            got = p.recv_pdu(1.0)
            if isinstance(got, str) or got[0] != 4:
                return None
            for c, is_cmd, last, data in W.parse_pdata(got[1]):
                cx = c
                if is_cmd and last:
                    cmd = W.parse_command(data)
                    need_ds = cmd.get(W.T_DATASET_TYPE) != 0x0101
                    if not need_ds:
                        return cx
                elif not is_cmd and last:
                    return cx
        return None

    def peer():
        if p.accept(timeout=2.0) is None:
            return
        rq = p.accept_association(timeout=1.0, extra_user=[W.role_item(C.CT, 1, 1)])
        if not isinstance(rq, dict):
            return
        ids = {pc["abstract"][0].decode(): pc["id"] for pc in rq["pcs"]}
        cx = read_request()
        if cx is None:
            return
        nsub = 0
        for st in sc["stream"]:
            if sc["gap"]:
                ctx.sleep(sc["gap"])
            k = st["kind"]
            sim.record("peer_rsp", what=k)
            if k == "pending":
                ident = {"ok": R.FIND_DS, "bad": BAD_IDENT, "none": None}[st["ident"]]
                extra = {W.T_REMAINING: 1, W.T_COMPLETED: nsub, W.T_FAILED: 0, W.T_WARNING: 0} if op in ("get", "move") else None
                for b in W.fragment(cx, W.rsp(RSP_NAME[op], mid, 0xFF00, SOP[op], ident is not None, extra=extra), ident, one_pdu=one_pdu, empty_last=empty_last):
                    p.send(b)
            elif k == "store_rq":
                nsub += 1
                cmd = W.rq("C-STORE-RQ", 100 + nsub, C.CT, True, extra={W.T_AFFECTED_INSTANCE: "1.2.3.4.5"})
                for b in W.fragment(ids.get(C.CT, 9), cmd, R.store_ds_bytes(), 16382, one_pdu=one_pdu, empty_last=empty_last):
                    p.send(b)
                got = p.recv_until((4, 7), 0.5)
                ctx.obs.setdefault("store_rsp", []).append(got if isinstance(got, str) else got[0])
            elif k == "final":
                ident = FAILED_LIST if st.get("ident") == "failed_list" else None
                extra = {W.T_COMPLETED: nsub, W.T_FAILED: 0, W.T_WARNING: 0} if op in ("get", "move") else None
                if op in ("store", "n_get", "n_set"):
                    extra = {W.T_AFFECTED_INSTANCE: "1.2.3.4.5"}
                for b in W.fragment(cx, W.rsp(RSP_NAME[op], mid, st["status"], SOP[op], ident is not None, extra=extra), ident, one_pdu=one_pdu, empty_last=empty_last):
                    p.send(b)
            elif k == "invalid":
                f = {W.T_COMMAND_FIELD: W.CMD[RSP_NAME[op]], W.T_MESSAGE_ID_RSP: mid, W.T_DATASET_TYPE: 0x0101, W.T_AFFECTED_CLASS: SOP[op]}
                for b in W.fragment(cx, W.command(f), None):
                    p.send(b)
            elif k == "wrong_type":
                for b in W.fragment(cx, W.rsp("C-ECHO-RSP", mid, 0, C.VERIFICATION), None):
                    p.send(b)
            elif k == "silence":
                pass
            elif k == "partial":
                # the first P-DATA-TF of a response (its command set, announcing a data set) and then nothing more
                ident = R.FIND_DS
                pdus = W.fragment(cx, W.rsp(RSP_NAME[op], mid, 0xFF00 if op in ("find", "get", "move") else 0x0000, SOP[op], True,
                                            extra={W.T_AFFECTED_INSTANCE: "1.2.3.4.5"} if op in ("store", "n_get", "n_set") else None), ident)
                p.send(pdus[0])
            elif k == "abort":
                p.send(W.abort(0, 0))
        ctx.obs["peer_end"] = p.drain(3 * sc["dimse"] + 0.3)
        p.close()

    pt = ctx.spawn(peer, "peer")

    def on_store(event):
        stores.append(event.request.MessageID)
        sim.record("handler", op="store_sub")
        return 0x0000

    ae = ctx.make_ae("SCU", acse=0.5, dimse=sc["dimse"], network=1.0)
    for u in (C.VERIFICATION, C.PR_FIND, C.PR_GET, C.PR_MOVE, C.PRINTER, C.BASIC_FILM_SESSION, C.CT, C.MR):
        ae.add_requested_context(u)
    assoc = ctx.associate(ae, port=11113, handlers=[(evt.EVT_C_STORE, on_store)], ext_neg=[build_role(C.CT, scp_role=True)])
    ctx.obs["established"] = assoc.is_established
    ys = ctx.obs["yielded"] = []
    probes = ctx.obs["lock_probes"] = []

    def lock_probe(i):
        from pynetdicom.association import Association

        done = {"n": 0}

        def body():
            assoc.bind(evt.EVT_PDU_SENT, lambda e: None)
            done["n"] = 1
            ae.dimse_timeout = sc["dimse"]
            done["n"] = 2
            Association(ae, "requestor")
            done["n"] = 3

        th = ctx.spawn(body, "probe:%d" % i)
        th.join(0.02)
        probes.append(done["n"])
        sim.record("lock_probe", i=i, steps_done=done["n"])

    if assoc.is_established:
        sim.record("user_op", op=op, phase="call")
        try:
            if op in ("find", "get", "move"):
                it = {"find": lambda: assoc.send_c_find(C.small_ds(0), C.PR_FIND, msg_id=mid),
                      "get": lambda: assoc.send_c_get(C.small_ds(0), C.PR_GET, msg_id=mid),
                      "move": lambda: assoc.send_c_move(C.small_ds(0), "DEST", C.PR_MOVE, msg_id=mid)}[op]()
                i = 0
                for st, ds in it:
                    ys.append((st.Status if st is not None and "Status" in st else "empty",
                               None if ds is None else ("dataset" if len(ds) else "empty-dataset")))
                    sim.record("yielded", i=i, status=ys[-1][0])
                    if sc["probe_lock"] and i < 3:
                        lock_probe(i)
                    i += 1
                    if i > 12:
                        break
            elif op == "echo":
                st = assoc.send_c_echo(msg_id=mid)
                ys.append((st.Status if "Status" in st else "empty", None))
            elif op == "store":
                st = assoc.send_c_store(C.store_ds(0, sop_class=C.MR), msg_id=mid)
                ys.append((st.Status if "Status" in st else "empty", None))
            elif op == "n_get":
                st, ds = assoc.send_n_get([0x00100010], C.PRINTER, "1.2.3.4.5", msg_id=mid)
                ys.append((st.Status if "Status" in st else "empty", None if ds is None else "dataset"))
            elif op == "n_set":
                st, ds = assoc.send_n_set(C.small_ds(1), C.BASIC_FILM_SESSION, "1.2.3.4.5", msg_id=mid)
                ys.append((st.Status if "Status" in st else "empty", None if ds is None else "dataset"))
        except Exception as e:  # noqa: BLE001
            ys.append(("raised:%s" % type(e).__name__, str(e)[:80]))
        sim.record("user_op", op=op, phase="return")
        ctx.obs["after"] = ctx.assoc_state(assoc)
        if assoc.is_established:
            assoc.release()
    pt.join()
    p.lsock.close()
    ctx.wait_until(lambda: not any(a.is_alive() or a.dul.is_alive() for a in ctx.assocs.values()), 2.0, step=0.005)


def expected(sc):
    """(list of expected (status, identifier-kind) pairs, abort expected?)."""
    op = sc["op"]
    out = []
    for st in sc["stream"]:
        k = st["kind"]
        if k == "pending":
            out.append((0xFF00, "dataset" if (op == "find" and st["ident"] == "ok") else None))
        elif k == "store_rq":
            continue
        elif k == "final":
            ident = None
            if op in ("get", "move") and st.get("ident") == "failed_list":
                ident = "dataset"
            out.append((st["status"], ident))
            return out, False
        else:
            out.append(("empty", None))
            return out, k != "abort"
    return out, False


def check(sc, r):
    out, dead = L.thread_deaths(ID, r)
    if r.failure:
        roles = sorted(set((t.get("role") or "?").split(":")[0] for t in (r.failure_info or []))) if r.failure == "stuck" else []
        out.append(C.v("liveness", "C24/run-%s/%s" % (r.failure, "+".join(roles)), "run ended %s: %s" % (r.failure, r.failure_info)))
        return out
    if not r.obs.get("established"):
        return out
    op = sc["op"]
    want, want_abort = expected(sc)
    got = [tuple(y) for y in r.obs.get("yielded", [])]
    # an absent identifier on a final Warning/Failure/Cancel may surface as None or as an empty dataset
    got = [(g[0], None if (g[1] == "empty-dataset" and i < len(want) and want[i][1] is None and not (isinstance(want[i][0], int) and want[i][0] in (0xFF00, 0xFF01, 0))) else g[1])
           for i, g in enumerate(got)]
    kinds = "+".join(s["kind"] + ("-bad" if s.get("ident") == "bad" else "") for s in sc["stream"])
    if op in ("echo", "store", "n_get", "n_set"):
        got_c = [g[0] for g in got]
        want_c = [w[0] for w in want]
        if got_c != want_c:
            out.append(C.v("results", "C24/result-mismatch/%s/%s" % (op, sc["stream"][-1]["kind"]), "call returned %s, response stream %s implies %s" % (got, sc["stream"], want)))
    else:
        if got != want:
            if len(got) > len(want):
                kind = "extra-yield"
            elif len(got) < len(want):
                kind = "missing-yield"
            else:
                kind = "different"
            bad = any(s.get("ident") == "bad" for s in sc["stream"])
            out.append(C.v("results", "C24/yield-mismatch/%s/%s%s" % (op, kind, "/undecodable-identifier" if bad else ""),
                           "iterator yielded %s, response stream [%s] implies %s" % (got, kinds, want)))
    if want_abort:
        c2s, _ = C.conn_pdus(r, 0, "c2s")
        if not any(p["type"] == 7 for p in c2s):
            out.append(C.v("abort", "C24/no-abort-after/%s/%s" % (op, sc["stream"][-1]["kind"]), "after %s the requestor did not write an A-ABORT" % sc["stream"][-1]["kind"]))
    # sub-operations: each C-STORE request the peer sent was handled once and answered
    nstore = len([s for s in sc["stream"] if s["kind"] == "store_rq"])
    if nstore and len(r.obs.get("store_handler", [])) != nstore and not want_abort:
        out.append(C.v("suboperations", "C24/store-suboperation-count/%s" % op, "%d C-STORE sub-operation requests sent, handler invoked %d times" % (nstore, len(r.obs.get("store_handler", [])))))
    for i, n in enumerate(r.obs.get("lock_probes", [])):
        if n < 3:
            out.append(C.v("lock", "C24/lock-held-while-suspended/%s/step%d" % (op, n), "while the %s response iterator was suspended after yield %d a second user thread could not %s within 0.02 s of virtual time" % (op, i, ["bind a handler", "change a timeout", "create an Association"][n])))
            break
    return out


def nontrivial(sc, r):
    plain = all(s["kind"] in ("pending", "final") and s.get("ident") != "bad" for s in sc["stream"]) and sc["stream"][-1].get("status") == 0
    if not plain:
        return (sc["op"], repr(sc["stream"]), r.digest if sc["sched"].get("line_gap") else "")
    return None


def probes(sc, r):
    d = {"op_" + sc["op"]: True, "end_" + sc["stream"][-1]["kind"]: True}
    d["undecodable_identifier"] = any(s.get("ident") == "bad" for s in sc["stream"])
    d["lock_probes"] = len(r.obs.get("lock_probes", []))
    d["store_suboperations"] = len(r.obs.get("store_handler", []))
    return d


def sample(sc, r):
    return {"op": sc["op"], "stream": sc["stream"], "yielded": r.obs.get("yielded"), "expected": expected(sc)[0],
            "lock_probes": r.obs.get("lock_probes"), "after": r.obs.get("after")}
