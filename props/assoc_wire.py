"""Structural conformance of A-ASSOCIATE-RQ / -AC PDUs as read from the wire by
the independent reader (the C12 oracle; also run passively by other checks)."""
import re

from props import common as C
from ref import wire as W

_UID_RE = re.compile(rb"^(0|[1-9][0-9]*)(\.(0|[1-9][0-9]*))*$")


def legal_aet(b):
    """AE VR: 16 bytes on the wire, default repertoire without backslash and
    control characters, not entirely spaces."""
    if len(b) != 16:
        return "length %d" % len(b)
    if any(c < 0x20 or c > 0x7E or c == 0x5C for c in b):
        return "illegal character"
    if b.strip(b" ") == b"":
        return "entirely spaces"
    return None


def legal_uid(b):
    if len(b) == 0:
        return "empty"
    if len(b) > 64:
        return "longer than 64"
    if not _UID_RE.match(b):
        return "not a legal UI value %r" % b[:70]
    return None


def _common(pid, kind, d):
    out = []
    for nm in ("called", "calling"):
        e = legal_aet(d[nm])
        if e:
            out.append(C.v("titles", "%s/%s/ae-title-%s/%s" % (pid, kind, nm, e.split(" ")[0]), "%s: %s AE title %r: %s" % (kind, nm, d[nm], e)))
    if len(d["app_context"]) != 1:
        out.append(C.v("items", "%s/%s/app-context-count/%d" % (pid, kind, len(d["app_context"])), "%s carries %d application context items" % (kind, len(d["app_context"]))))
    else:
        e = legal_uid(d["app_context"][0])
        if e:
            out.append(C.v("uids", "%s/%s/app-context-uid" % (pid, kind), "%s application context name: %s" % (kind, e)))
    if len(d["user_info"]) != 1:
        out.append(C.v("items", "%s/%s/user-info-count/%d" % (pid, kind, len(d["user_info"])), "%s carries %d user information items" % (kind, len(d["user_info"]))))
    else:
        ui = d["user_info"][0]
        n51 = [v for t, v in ui if t == 0x51]
        n52 = [v for t, v in ui if t == 0x52]
        if len(n51) != 1:
            out.append(C.v("items", "%s/%s/max-length-count/%d" % (pid, kind, len(n51)), "%s user information has %d maximum-length items" % (kind, len(n51))))
        elif len(n51[0]) != 4:
            out.append(C.v("items", "%s/%s/max-length-size" % (pid, kind), "%s maximum-length item has %d bytes" % (kind, len(n51[0]))))
        if len(n52) != 1:
            out.append(C.v("items", "%s/%s/impl-class-count/%d" % (pid, kind, len(n52)), "%s user information has %d implementation-class-UID items" % (kind, len(n52))))
        else:
            e = legal_uid(n52[0])
            if e:
                out.append(C.v("uids", "%s/%s/impl-class-uid" % (pid, kind), "%s implementation class UID: %s" % (kind, e)))
        for t, v in ui:
            if t == 0x55 and not (1 <= len(v) <= 16):
                out.append(C.v("items", "%s/%s/impl-version-length" % (pid, kind), "%s implementation version name has %d bytes" % (kind, len(v))))
            if t == 0x54:
                import struct

                ln = struct.unpack(">H", v[0:2])[0]
                e = legal_uid(v[2:2 + ln])
                if e or len(v) != ln + 4:
                    out.append(C.v("uids", "%s/%s/role-item" % (pid, kind), "%s role selection item malformed: %s" % (kind, e)))
    if d["unknown_items"]:
        out.append(C.v("items", "%s/%s/unknown-item/%02x" % (pid, kind, d["unknown_items"][0][0]), "%s carries unknown item types %s" % (kind, [hex(t) for t, _ in d["unknown_items"]])))
    return out


def check_rq(pid, payload):
    try:
        d = W.parse_associate(payload)
    except ValueError as e:
        return [C.v("lengths", "%s/rq/unparseable" % pid, "A-ASSOCIATE-RQ does not parse: %s" % e)]
    out = _common(pid, "rq", d)
    pcs = d["pcs"]
    if not (1 <= len(pcs) <= 128):
        out.append(C.v("contexts", "%s/rq/context-count/%d" % (pid, len(pcs)), "A-ASSOCIATE-RQ has %d presentation contexts" % len(pcs)))
    ids = [p["id"] for p in pcs]
    if len(set(ids)) != len(ids):
        out.append(C.v("contexts", "%s/rq/duplicate-context-id" % pid, "duplicate presentation context IDs %s" % ids))
    bad = [i for i in ids if i % 2 == 0 or not (1 <= i <= 255)]
    if bad:
        out.append(C.v("contexts", "%s/rq/even-context-id" % pid, "presentation context IDs not odd in 1..255: %s" % bad))
    for p in pcs:
        if len(p["abstract"]) != 1:
            out.append(C.v("contexts", "%s/rq/abstract-count/%d" % (pid, len(p["abstract"])), "context %d has %d abstract syntaxes" % (p["id"], len(p["abstract"]))))
        if len(p["transfer"]) < 1:
            out.append(C.v("contexts", "%s/rq/no-transfer-syntax" % pid, "context %d has no transfer syntax" % p["id"]))
        for u in p["abstract"] + p["transfer"]:
            e = legal_uid(u)
            if e:
                out.append(C.v("uids", "%s/rq/context-uid" % pid, "context %d: %s" % (p["id"], e)))
        if p["other"]:
            out.append(C.v("contexts", "%s/rq/context-subitem" % pid, "context %d has unknown sub-items" % p["id"]))
    if d["results"]:
        out.append(C.v("contexts", "%s/rq/result-items" % pid, "A-ASSOCIATE-RQ carries presentation context result items"))
    return out


def check_ac(pid, payload, rq_payload):
    try:
        d = W.parse_associate(payload)
        rq = W.parse_associate(rq_payload)
    except ValueError as e:
        return [C.v("lengths", "%s/ac/unparseable" % pid, "A-ASSOCIATE-AC does not parse: %s" % e)]
    out = _common(pid, "ac", d)
    want = sorted(p["id"] for p in rq["pcs"])
    got = sorted(p["id"] for p in d["results"])
    if want != got:
        out.append(C.v("contexts", "%s/ac/result-per-context" % pid, "proposed context IDs %s, result items for %s" % (want[:20], got[:20])))
    for p in d["results"]:
        if p["result"] == 0:
            if len(p["transfer"]) != 1:
                out.append(C.v("contexts", "%s/ac/accepted-transfer-count/%d" % (pid, len(p["transfer"])), "accepted context %d carries %d transfer syntaxes" % (p["id"], len(p["transfer"]))))
            else:
                e = legal_uid(p["transfer"][0])
                if e:
                    out.append(C.v("uids", "%s/ac/context-uid" % pid, "context %d: %s" % (p["id"], e)))
                prop = next((q for q in rq["pcs"] if q["id"] == p["id"]), None)
                if prop is not None and p["transfer"][0] not in prop["transfer"]:
                    out.append(C.v("contexts", "%s/ac/transfer-not-proposed" % pid, "context %d accepted with %r which was not proposed" % (p["id"], p["transfer"][0])))
        elif p["result"] not in (1, 2, 3, 4):
            out.append(C.v("contexts", "%s/ac/result-value/%d" % (pid, p["result"]), "context %d has result %d" % (p["id"], p["result"])))
    if d["pcs"]:
        out.append(C.v("contexts", "%s/ac/proposal-items" % pid, "A-ASSOCIATE-AC carries presentation context (proposal) items"))
    return out
