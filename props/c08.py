"""C08 - no peer behaviour keeps pynetdicom blocked past its configured timeouts."""
from props import common as C
from props import lifecycle as L
from props import rawlife as R
from ref import wire as W

ID = "C08"
LEVEL = "fault_enumeration"
TECHNIQUE = "deterministic simulation with enumerated stall points: a scripted peer follows a legal exchange up to byte offset k, then goes silent with the connection open (optionally also no longer reading, under simulated TCP flow control), or keeps flooding after a local abort; bounded-liveness oracle in virtual time"
RULE = (
    "a case = one reference exchange (associate + C-ECHO / C-STORE with data set / C-FIND, release) in one role (real acceptor "
    "or real requestor), with the scripted peer stopping after exactly k bytes of its own output (k enumerated over the whole "
    "stream in the thorough tier, over PDU boundaries +-1 and every 8th offset in the quick tier) and keeping the TCP connection "
    "open, or dribbling then stopping, or never answering; checked: every user call returns and every association/provider "
    "thread of the real side finishes within 2x(acse+dimse+network+connection timeouts)+0.5 s of virtual time after the peer's "
    "last byte, and the local socket is closed; non-trivial = the stall happened strictly inside the exchange (0 < k < total); "
    "distinct = distinct (exchange, role, k, schedule digest)"
    " Also: the stalled peer has stopped reading and the local C-STORE is larger than the connection's buffering (send() blocks, flow "
    "control), and: the acceptor's handler aborts while the peer keeps the receive path busy for five ARTIM periods (each recv() costs "
    "1 ms of virtual time) - every thread must be gone within ARTIM + margin of the abort"
)
STUBS = ["scripted RawPeer (the stalling peer)"]
EXHAUSTIVE = {"thorough": True, "quick": False}
ASSUMPTIONS = ["all timeouts on the path are finite (the property is about configured timeouts)"]

EXCH = ["echo", "store", "find"]


def peer_script(role, exch):
    """Legal exchange from the peer's point of view."""
    if role == "acceptor":   # peer is the requestor
        s = [{"do": "send", "pdu": "rq"}, {"do": "expect", "types": [2, 3, 7], "t": 0.3}]
        if exch == "echo":
            s += [{"do": "send", "pdu": "echo_rq"}, {"do": "expect", "types": [4, 7], "t": 0.3}]
        elif exch == "store":
            s += [{"do": "send", "pdu": "store_rq", "n": 300, "frag": 128}, {"do": "expect", "types": [4, 7], "t": 0.3}]
        else:
            s += [{"do": "send", "pdu": "find_rq"}, {"do": "expect", "types": [4, 7], "t": 0.3}, {"do": "expect", "types": [4, 7], "t": 0.3}]
        s += [{"do": "send", "pdu": "release_rq"}, {"do": "expect", "types": [6, 7], "t": 0.3}, {"do": "close"}]
        return s
    # peer is the acceptor; the real requestor runs user ops
    s = [{"do": "expect", "types": [1], "t": 1.0}, {"do": "send", "pdu": "ac"}]
    if exch == "echo":
        s += [{"do": "expect", "types": [4, 7], "t": 0.5}, {"do": "send", "pdu": "echo_rsp"}]
    elif exch == "store":
        s += [{"do": "expect", "types": [4, 7], "t": 0.5}, {"do": "expect", "types": [4, 7], "t": 0.3}, {"do": "send", "pdu": "store_rsp"}]
    else:
        s += [{"do": "expect", "types": [4, 7], "t": 0.5}, {"do": "expect", "types": [4, 7], "t": 0.3},
              {"do": "send", "pdu": "find_rsp", "status": 0xFF00}, {"do": "send", "pdu": "find_rsp", "status": 0}]
    s += [{"do": "expect", "types": [5, 7], "t": 0.5}, {"do": "send", "pdu": "release_rp"}, {"do": "drain", "t": 0.3}, {"do": "close"}]
    return s


def stream_len(role, exch):
    return sum(len(R.build(st)) for st in peer_script(role, exch) if st["do"] == "send")


def boundaries(role, exch):
    out, n = [], 0
    for st in peer_script(role, exch):
        if st["do"] == "send":
            n += len(R.build(st))
            out.append(n)
    return out


def pdu_boundaries(role, exch):
    """Offsets of every PDU boundary in the peer's stream (a message may span several P-DATA-TF PDUs)."""
    out, n = [], 0
    for st in peer_script(role, exch):
        if st["do"] == "send":
            pdus, _rest = W.frame(R.build(st))
            for _t, payload, _off in pdus:
                n += 6 + len(payload)
                out.append(n)
    return out


def _mk(role, exch, k, sched=None, net=None, t=None, dribble=False, size=300, cap=None):
    t = t or 0.05
    ae = {"acse": t, "dimse": 1.4 * t, "network": 2 * t, "connection": t}
    user = []
    if role == "requestor":
        user = [{"op": {"echo": "echo", "store": "store", "find": "find"}[exch], "size": size, "consume": 9}, {"op": "release"}]
    sc = {"role": role, "exch": exch, "budget": k, "ae": ae, "peer": peer_script(role, exch), "user": user,
          "sched": sched or {"switch_pct": 30}, "net": dict(net or {"seg": "whole"})}
    if dribble:
        sc["net"] = {"seg": "dribble", "dribble_max": 3, "dribble_gap": t / 40}
    if cap is not None:
        # flow control: the stalled peer has also stopped *reading*; once `cap` bytes are outstanding the local
        # send() blocks (back-pressure) instead of succeeding into a bottomless buffer
        sc["net"]["pipe_capacity"] = cap
    return sc


def _flood_after_abort(t, gap, sched=None, pdu="echo_rq", role="acceptor"):
    """`pdu`: what the peer floods with once the local side has aborted - P-DATA (ignored in Sta13, AA-6), or
    A-ASSOCIATE-RQ / unrecognised PDUs (each answered with another A-ABORT, AA-7)."""
    ae = {"acse": t, "dimse": 4 * t, "network": 8 * t, "connection": t, "echo_act": "abort"}
    n = int(5 * t / gap)
    fl = {"do": "flood", "pdu": pdu, "n": n, "gap": gap}
    if pdu == "unknown":
        fl["type"] = 0xFF
    peer = [{"do": "send", "pdu": "rq"}, {"do": "expect", "types": [2, 3, 7], "t": 0.3}, {"do": "send", "pdu": "echo_rq"},
            fl, {"do": "drain", "t": 2 * t}, {"do": "close"}]
    user = []
    if role == "requestor":
        # the local user aborts the association it requested (AA-1 in Sta6: the ARTIM timer has never run on this
        # side) while the peer is already streaming - non-final command fragments when `pdu` is "echo_rq"
        if pdu == "echo_rq":
            fl = dict(fl, pdu="raw", hex="0400" + "00000008" + "00000004" + "0101" + "0000")
        peer = [{"do": "expect", "types": [1], "t": 1.0}, {"do": "send", "pdu": "ac"}, fl, {"do": "drain", "t": 2 * t}, {"do": "close"}]
        user = [{"op": "sleep", "d": t / 2}, {"op": "abort"}]
    return {"role": role, "exch": "flood", "budget": None, "ae": ae, "peer": peer, "user": user, "flood_after_abort": True,
            "sched": sched or {"switch_pct": 30}, "net": {"seg": "whole", "recv_cost": 0.001}}


def directed(tier):
    out = []
    for role in ("acceptor", "requestor"):
        for exch in EXCH:
            total = stream_len(role, exch)
            bs = boundaries(role, exch)
            if tier == "thorough":
                ks = list(range(0, total + 1))
            else:
                ks = sorted(set([0, 1, 5, 6, 7] + [b + d for b in bs for d in (-1, 0, 1, 3, 6, 7)] + list(range(0, total, 8))
                                + [b + d for b in pdu_boundaries(role, exch) for d in (-1, 0, 1)]))
                ks = [k for k in ks if 0 <= k <= total]
            for k in ks:
                out.append(_mk(role, exch, k))
    # the acceptor's handler aborts the association; the peer ignores the A-ABORT and keeps the provider's receive
    # path busy for five ARTIM periods (each recv() costs the provider 1 ms): only the ARTIM timer gets it out of Sta13
    for t in (0.05, 0.1):
        for gap in (0.0003, 0.0008):
            for pdu in ("echo_rq", "rq", "unknown"):
                out.append(_flood_after_abort(t, gap, pdu=pdu))
                out.append(_flood_after_abort(t, gap, pdu=pdu, role="requestor"))
    # peer accepts the association and then neither reads nor writes: a C-STORE larger than the connection's
    # buffering blocks in send()
    ac_len = boundaries("requestor", "store")[0]
    for cap in (512, 2048, 8192):
        for size in (3000, 20000, 70000):
            out.append(_mk("requestor", "store", ac_len, size=size, cap=cap))
    return out


def budget(tier):
    if tier == "thorough":
        return {"runs": 4000, "wall": 2400, "selftest": 32, "shrink_s": 40}
    return {"runs": 200, "wall": 300, "selftest": 12, "shrink_s": 20}


def gen(rng, idx, tier):
    role = rng.choice(["acceptor", "requestor"])
    exch = rng.choice(EXCH)
    total = stream_len(role, exch)
    k = rng.randrange(0, total + 1)
    if rng.randrange(12) == 0:
        return _flood_after_abort(rng.choice([0.05, 0.1]), rng.choice([0.0002, 0.0005, 0.0009]), sched=C.gen_sched(rng),
                                  pdu=rng.choice(["echo_rq", "rq", "unknown"]), role=rng.choice(["acceptor", "requestor"]))
    size, cap = 300, None
    if rng.randrange(4) == 0:
        size, cap = rng.choice([3000, 20000, 70000]), rng.choice([256, 1024, 4096, 16384])
    return _mk(role, exch, k, sched=C.gen_sched(rng), net=C.gen_net(rng), t=rng.choice([0.03, 0.05, 0.1]), dribble=rng.randrange(4) == 0,
               size=size, cap=cap)


def shrink(sc):
    if sc["sched"] != {"switch_pct": 30}:
        d = dict(sc)
        d["sched"] = {"switch_pct": 30}
        yield d
    if sc["net"] != {"seg": "whole"}:
        d = dict(sc)
        d["net"] = {"seg": "whole"}
        yield d


def execute(sc, ctx):
    return R.execute(sc, ctx)


def _phase(sc):
    """Which part of the exchange byte offset k falls into."""
    if sc.get("flood_after_abort"):
        return "flood-after-abort"
    k = sc["budget"]
    bs = boundaries(sc["role"], sc["exch"])
    names = [st["pdu"] for st in sc["peer"] if st["do"] == "send"]
    prev = 0
    for b, nm in zip(bs, names):
        if k < b:
            return "%s:%s" % (nm, "start" if k == prev else "mid")
        prev = b
    return "complete"


def check(sc, r):
    out, dead = L.thread_deaths(ID, r)
    lab = R.real_label(sc)
    ph = _phase(sc)
    if r.failure:
        roles = sorted(set((t.get("role") or "?").split(":")[0] for t in (r.failure_info or []))) if r.failure == "stuck" else []
        out.append(C.v("bounded-liveness", "C08/run-%s/%s/%s" % (r.failure, sc["role"], "+".join(roles)),
                       "run ended %s (stall in %s at byte %s): %s" % (r.failure, ph, sc["budget"], r.failure_info)))
        return out
    ae = sc["ae"]
    bound = 2 * (ae["acse"] + ae["dimse"] + ae["network"] + (ae.get("connection") or 0)) + 0.5
    t_last = r.obs.get("peer_done_t")
    if t_last is None:
        return out
    for t in r.tasks:
        role = t["role"] or ""
        if role.startswith(("assoc:", "dul:", "user", "main")) or role == "main":
            if t["exit_t"] is not None and t["exit_t"] - t_last > bound and not role.startswith("main"):
                out.append(C.v("bounded-liveness", "C08/late-exit/%s/%s" % (sc["role"], role.split(":")[0]),
                               "%s finished %.3f s after the peer's last byte (bound %.3f; stall in %s at byte %s)" % (role, t["exit_t"] - t_last, bound, ph, sc["budget"])))
    if sc.get("flood_after_abort"):
        # once the local side has aborted (AA-1: A-ABORT sent, ARTIM started, Sta13) only ARTIM bounds the wait
        ab = [h["t"] for h in r.evts(lab, "EVT_ABORTED")]
        if ab:
            lim = ab[0] + ae["acse"] * 1.25 + 0.05
            for t in r.tasks:
                role = t["role"] or ""
                if role.startswith(("assoc:", "dul:")) and t["exit_t"] is not None and t["exit_t"] > lim:
                    out.append(C.v("bounded-liveness", "C08/late-exit-after-abort/%s" % role.split(":")[0],
                                   "%s finished %.3f s after the local abort although the ARTIM timeout is %.3f s (the peer kept sending)" % (role, t["exit_t"] - ab[0], ae["acse"])))
    ud = r.obs.get("user_done_t")
    if ud is not None and ud - t_last > bound:
        out.append(C.v("bounded-liveness", "C08/late-return/%s" % sc["role"], "user calls returned %.3f s after the peer's last byte (bound %.3f)" % (ud - t_last, bound)))
    st = r.final.get(lab)
    if st and "error" not in st and lab not in dead:
        if st.get("alive") or st.get("dul_alive"):
            out.append(C.v("bounded-liveness", "C08/thread-left/%s" % sc["role"], "%s threads still alive at the end: %s" % (lab, st)))
        if r.evts(lab, "EVT_CONN_OPEN") and not st.get("sock_closed"):
            out.append(C.v("released-resources", "C08/socket-open/%s/%s" % (sc["role"], ph.split(":")[0]), "%s socket not closed after the stall (%s): %s" % (lab, ph, st)))
        if st.get("established"):
            out.append(C.v("released-resources", "C08/still-established/%s" % sc["role"], "%s still reports established: %s" % (lab, st)))
    return out


def nontrivial(sc, r):
    if sc.get("flood_after_abort"):
        return ("flood", r.digest) if r.evts(R.real_label(sc), "EVT_ABORTED") else None
    total = stream_len(sc["role"], sc["exch"])
    if 0 < sc["budget"] < total and any(h["kind"] == "peer_stall" for h in r.hist):
        return (sc["role"], sc["exch"], sc["budget"], r.digest)
    return None


def probes(sc, r):
    return {"phase_%s_%s" % (sc["role"], _phase(sc)): True, "stalled": any(h["kind"] == "peer_stall" for h in r.hist),
            "flood_after_abort_artim_expired": bool(sc.get("flood_after_abort")) and any(
                h["fsm_event"] == "Evt18" and h["state"] == "Sta13" for h in r.evts(R.real_label(sc), "EVT_FSM_TRANSITION")),
            "send_blocked_by_flow_control": r.counters.get("net.send_blocked", 0) > 0,
            "send_timed_out": r.counters.get("net.send_timeout", 0) > 0}


def sample(sc, r):
    lab = R.real_label(sc)
    ex = [t for t in r.tasks if (t["role"] or "").endswith(lab)]
    return {"role": sc["role"], "exchange": sc["exch"], "stall_after_bytes": sc["budget"], "phase": _phase(sc),
            "peer_done_t": r.obs.get("peer_done_t"), "thread_exits": [(t["role"], t["exit_t"]) for t in ex],
            "final": r.final.get(lab), "peer_seen": r.obs.get("peer_seen")}
