"""Lifecycle scenario engine (family F1: real AEs on both sides) and the
oracles that C05, C06, C12 and C27 evaluate on its runs.

A scenario has one acceptor AE (optionally with a policy that rejects), 1-2
requestor scripts run by simulated user threads, optional acceptor-side user
actions and handler behaviours, an optional network fault plan and a scheduler
configuration.
"""
from props import common as C
from ref import wire as W

REQ_OPS = ("echo", "store", "find", "sleep", "release", "abort", "release_abort", "abort_release",
           "release_release", "echo_abort", "shutdown_ae")


def gen_scenario(rng, faulty=False, fine_pct=35, nreq_max=2):
    sc = {"sched": C.gen_sched(rng, fine_pct=fine_pct), "net": C.gen_net(rng)}
    t = rng.choice([0.05, 0.1, 0.2, 0.4])
    sc["acc"] = {
        "acse": rng.choice([t, 2 * t]), "dimse": rng.choice([t, 2 * t]), "network": rng.choice([t, 3 * t]),
        "max_pdu": rng.choice([0, 128, 1024, 16382]),
        "echo_act": rng.choice(["none", "none", "none", "abort", "release", "sleep", "sleep_abort", "sleep_release"]),
        "echo_sleep": rng.choice([0.001, 0.01, t * 1.5]),
        "find_k": rng.randrange(0, 4),
        "find_sleep": rng.choice([0.0, 0.002]),
        "reject": rng.choice([None, None, None, None, "called_aet", "max_assoc"]),
        "timeout_response": rng.choice(["A-ABORT", "A-ABORT", "A-RELEASE"]),
    }
    nreq = 1 if rng.randrange(4) else rng.randrange(1, nreq_max + 1)
    sc["req"] = []
    for i in range(nreq):
        nops = rng.choice([0, 1, 1, 2, 2, 3])
        ops = []
        for _ in range(nops):
            o = rng.choice(["echo", "echo", "store", "find", "sleep", "release", "abort", "release_abort",
                            "abort_release", "echo_abort", "echo_release"])
            d = {"op": o}
            if o == "store":
                d["size"] = rng.choice([0, 100, 3000])
            if o == "find":
                d["consume"] = rng.randrange(0, 5)
            if o == "sleep":
                d["d"] = rng.choice([0.001, 0.01, t * 0.5, t * 1.2, t * 4])
            if o in ("release_abort", "abort_release", "release_release", "echo_abort", "echo_release"):
                d["gap"] = rng.choice([0.0, 0.0, 0.0002, 0.001])
            if o in ("echo_release", "echo_abort") and rng.randrange(2):
                d["gap"] = 0.0
                d["gap2"] = rng.choice([0.0005, 0.002, 0.005])
            ops.append(d)
        final = rng.choice(["release", "release", "abort", "leave"])
        if final == "leave" and any(o["op"] == "find" for o in ops):
            # a response iterator may be abandoned half-way (which keeps the reactor paused):
            # such a script must end the association itself
            final = "release"
        sc["req"].append({
            "acse": rng.choice([t, 2 * t]), "dimse": rng.choice([t, 2 * t]), "network": rng.choice([t, 3 * t]),
            "max_pdu": rng.choice([0, 128, 16382]), "start_delay": rng.choice([0.0, 0.0, 0.001, 0.01]),
            "ops": ops, "final": final,
            "timeout_response": rng.choice(["A-ABORT", "A-ABORT", "A-RELEASE"]),
        })
    sc["acc_ops"] = []
    if rng.randrange(3) == 0:
        sc["acc_ops"].append({"after": rng.choice([0.0, 0.001, 0.005, 0.02]), "op": rng.choice(["release", "abort", "release_abort", "shutdown_ae"])})
    sc["faults"] = []
    if faulty:
        nf = rng.choice([1, 1, 2])
        for _ in range(nf):
            sc["faults"].append({
                "conn": rng.randrange(0, nreq), "dir": rng.choice(["c2s", "s2c"]),
                "kind": rng.choice(["reset", "stall", "stall"]), "at": rng.choice([0, 1, 5, 6, 10, 60, 150, 206, 210, 230, 300, 500]) + rng.randrange(0, 8),
            })
        if rng.randrange(5) == 0:
            sc["stalls"] = [{"role": rng.choice(["dul:acc0", "dul:req0", "assoc:acc0", "assoc:req0"]), "at": rng.choice([0.001, 0.005, 0.02]), "dur": rng.choice([0.01, 0.05, t * 1.5])}]
        if rng.randrange(3) == 0:
            # flow control: a stalled connection also stops taking bytes, so a large enough write blocks in send()
            sc["net"]["pipe_capacity"] = rng.choice([256, 1024, 4096])
            for rq in sc["req"]:
                rq["ops"].insert(rng.randrange(0, len(rq["ops"]) + 1), {"op": "store", "size": rng.choice([3000, 20000])})
    return sc


def shrink(sc):
    for i, rq in enumerate(sc["req"]):
        for j in range(len(rq["ops"])):
            d = _copy(sc)
            del d["req"][i]["ops"][j]
            yield d
    if len(sc["req"]) > 1:
        for i in range(len(sc["req"])):
            d = _copy(sc)
            del d["req"][i]
            d["faults"] = [f for f in d.get("faults", []) if f["conn"] < len(d["req"])]
            yield d
    for j in range(len(sc.get("acc_ops", []))):
        d = _copy(sc)
        del d["acc_ops"][j]
        yield d
    for j in range(len(sc.get("faults", []))):
        d = _copy(sc)
        del d["faults"][j]
        yield d
    if sc.get("stalls"):
        d = _copy(sc)
        d["stalls"] = []
        yield d
    if sc["net"].get("seg", "whole") != "whole" or sc["net"].get("short_write_pct"):
        d = _copy(sc)
        d["net"] = {"seg": "whole"}
        yield d
    if sc["sched"].get("line_gap") or sc["sched"].get("sleep_jitter_pct"):
        d = _copy(sc)
        d["sched"] = {"switch_pct": sc["sched"].get("switch_pct", 30)}
        yield d
    if sc["acc"].get("echo_act") != "none":
        d = _copy(sc)
        d["acc"]["echo_act"] = "none"
        yield d
    if sc["acc"].get("reject"):
        d = _copy(sc)
        d["acc"]["reject"] = None
        yield d


def _copy(sc):
    import copy

    return copy.deepcopy(sc)


def execute(sc, ctx):
    from pynetdicom import evt
    from pynetdicom.sop_class import Verification

    sim = ctx.sim
    acc = sc["acc"]
    for f in sc.get("faults", []):
        ctx.net.cfg["faults"].append(dict(f))
    if sc.get("raise"):
        import hashlib

        rz = sc["raise"]

        def plan(lab, name, c):
            if name in rz.get("never", ()):
                return False
            h = hashlib.sha256(("%s/%s/%s/%d" % (rz["seed"], lab, name, c)).encode()).digest()[0]
            return h * 100 // 256 < rz["pct"]

        ctx.raise_plan = plan

    def on_echo(event):
        sim.record("handler", op="echo", assoc=ctx.label(event.assoc))
        act = acc["echo_act"]
        if act == "abort":
            event.assoc.abort()
        elif act == "release":
            event.assoc.release()
        elif act == "sleep":
            ctx.sleep(acc["echo_sleep"])
        elif act in ("sleep_abort", "sleep_release"):
            # give the peer time to get something else onto the wire (a release request, say) before ending it here
            ctx.sleep(acc["echo_sleep"])
            getattr(event.assoc, act[6:])()
        return 0x0000

    def on_store(event):
        sim.record("handler", op="store", assoc=ctx.label(event.assoc))
        return 0x0000

    def on_find(event):
        sim.record("handler", op="find", assoc=ctx.label(event.assoc))
        for i in range(acc["find_k"]):
            if acc["find_sleep"]:
                ctx.sleep(acc["find_sleep"])
            yield 0xFF00, C.small_ds(i)

    def on_est(event):
        if event.assoc.is_acceptor:
            event.assoc.network_timeout_response = acc["timeout_response"]

    scp = ctx.make_ae("SCP", acse=acc["acse"], dimse=acc["dimse"], network=acc["network"], max_pdu=acc["max_pdu"])
    scp.add_supported_context(Verification)
    scp.add_supported_context(C.CT)
    scp.add_supported_context(C.PR_FIND)
    if acc["reject"] == "called_aet":
        scp.require_called_aet = True
    if acc["reject"] == "max_assoc":
        scp.maximum_associations = 0 if len(sc["req"]) == 1 else 1
    ctx.start_server(scp, handlers=[(evt.EVT_C_ECHO, on_echo), (evt.EVT_C_STORE, on_store),
                                    (evt.EVT_C_FIND, on_find), (evt.EVT_ESTABLISHED, on_est)])

    for st in sc.get("stalls", []):
        def mk(st=st):
            def fire():
                t = ctx.task_by_role(st["role"])
                if t is not None and t.state != "done":
                    sim.stall(t, st["dur"])
                    sim.record("stall", role=st["role"], dur=st["dur"])
            return fire
        sim.at(st["at"], mk())

    threads = []
    ctx.obs["req"] = {}

    def requestor(i, rq):
        def run():
            if rq["start_delay"]:
                ctx.sleep(rq["start_delay"])
            ae = ctx.make_ae("SCU%d" % i, acse=rq["acse"], dimse=rq["dimse"], network=rq["network"], max_pdu=rq["max_pdu"])
            ae.add_requested_context(Verification)
            ae.add_requested_context(C.CT)
            ae.add_requested_context(C.PR_FIND)
            title = "WRONG" if acc["reject"] == "called_aet" and i == 0 else "SCP"
            assoc = ctx.associate(ae, ae_title=title)
            assoc.network_timeout_response = rq["timeout_response"]
            lab = ctx.label(assoc)
            o = ctx.obs["req"][i] = {"label": lab, "established": assoc.is_established, "results": []}
            if not assoc.is_established:
                # documented usage: only act on an association that was established
                o["done_t"] = sim.now
                sim.record("script_done", who=lab)
                return
            for op in rq["ops"]:
                o["results"].append(_do_op(ctx, ae, assoc, op))
            fin = rq["final"]
            if fin == "release":
                o["results"].append(_do_op(ctx, ae, assoc, {"op": "release"}))
            elif fin == "abort":
                o["results"].append(_do_op(ctx, ae, assoc, {"op": "abort"}))
            o["done_t"] = sim.now
            sim.record("script_done", who=lab)
        return run

    for i, rq in enumerate(sc["req"]):
        threads.append(ctx.spawn(requestor(i, rq), "user:%d" % i))

    def acc_user():
        for a in sc.get("acc_ops", []):
            ok = ctx.wait_until(lambda: any(x.is_established for x in scp.active_associations if x.is_acceptor), 1.0)
            if not ok:
                return
            ctx.sleep(a["after"])
            assocs = [x for x in scp.active_associations if x.is_acceptor]
            if not assocs:
                return
            sim.record("acc_op", op=a["op"])
            _do_op(ctx, scp, assocs[0], {"op": a["op"], "gap": 0.0})
        sim.record("script_done", who="acc_user")

    if sc.get("acc_ops"):
        threads.append(ctx.spawn(acc_user, "accuser"))
    for th in threads:
        th.join()
    ctx.obs["scripts_done_t"] = sim.now
    sim.record("scripts_done")
    # let every association run to its end (bounded by the configured timeouts)
    bound = 4 * max([acc["acse"], acc["dimse"], acc["network"]] + [x[k] for x in sc["req"] for k in ("acse", "dimse", "network")]) + 1.0
    ctx.obs["bound"] = bound
    ctx.wait_until(lambda: not any(a.is_alive() or a.dul.is_alive() for a in ctx.assocs.values()), bound, step=0.005)
    ctx.obs["quiesce_t"] = sim.now
    sim.record("quiesced", alive=[lab for lab, a in ctx.assocs.items() if a.is_alive() or a.dul.is_alive()])


def _do_op(ctx, ae, assoc, op):
    """One public-API user action; returns a JSON-able description of the outcome."""
    sim = ctx.sim
    o = op["op"]
    sim.record("user_op", op=o, assoc=ctx.label(assoc), phase="call")
    res = None
    try:
        if o == "echo":
            st = assoc.send_c_echo()
            res = getattr(st, "Status", None) if st is not None and "Status" in st else "empty"
        elif o == "store":
            st = assoc.send_c_store(C.store_ds(0, extra_bytes=op.get("size", 0)))
            res = st.Status if st is not None and "Status" in st else "empty"
        elif o == "find":
            n = 0
            sts = []
            for st, ds in assoc.send_c_find(C.small_ds(0), C.PR_FIND):
                sts.append(st.Status if st is not None and "Status" in st else "empty")
                n += 1
                if n >= op.get("consume", 99):
                    break
            res = sts
        elif o == "sleep":
            ctx.sleep(op["d"])
        elif o == "release":
            assoc.release()
        elif o == "abort":
            assoc.abort()
        elif o == "shutdown_ae":
            ae.shutdown()
            ctx.servers[:] = [s for s in ctx.servers if s in ae._servers]
        elif o in ("release_abort", "abort_release", "release_release", "echo_abort", "echo_release"):
            first, second = {"release_abort": ("release", "abort"), "abort_release": ("abort", "release"),
                             "release_release": ("release", "release"), "echo_abort": ("echo", "abort"),
                             "echo_release": ("echo", "release")}[o]
            def second_thread():
                if op.get("gap2"):
                    ctx.sleep(op["gap2"])     # let the first action get going (its request on the wire) first
                _do_op(ctx, ae, assoc, {"op": second})

            th = ctx.spawn(second_thread, "user2:%s" % ctx.label(assoc))
            if op.get("gap"):
                ctx.sleep(op["gap"])
            _do_op(ctx, ae, assoc, {"op": first})
            th.join()
    except (RuntimeError, ValueError) as e:
        # documented: sending on an association that is not established raises RuntimeError
        res = "raised:%s" % type(e).__name__
    sim.record("user_op", op=o, assoc=ctx.label(assoc), phase="return", res=repr(res))
    return res


# ----------------------------------------------------------------------------- oracles
def assoc_conn(r):
    """label -> connection id, from EVT_CONN_OPEN records."""
    out = {}
    for h in r.evts(name="EVT_CONN_OPEN"):
        if h.get("conn") is not None:
            out[h["assoc"]] = h["conn"]
    return out


def pairs(r):
    """[(req label or None, acc label or None, conn id)] for every connection."""
    m = assoc_conn(r)
    byc = {}
    for lab, c in m.items():
        byc.setdefault(c, {})["req" if lab.startswith("req") else "acc"] = lab
    return [(d.get("req"), d.get("acc"), c) for c, d in sorted(byc.items())]


def fault_fired(r):
    return any(h["kind"] in ("net_fault", "stall") for h in r.hist)


def check_single_outcome(pid, r, skip=()):
    """Each side reports exactly one terminal outcome and fires its terminal
    event once; is_established is false at the end."""
    out = []
    for lab, st in sorted(r.final.items()):
        if "error" in st or lab in skip:
            continue
        flags = [k for k in ("released", "aborted", "rejected") if st[k]]
        tevh = C.terminal_events(r, lab)
        tev = [h["evt"] for h in tevh]
        tevo = sorted("%s@%s" % (h["evt"][4:], h.get("origin")) for h in tevh)
        role = lab[:3]
        started = bool(r.evts(lab, "EVT_CONN_OPEN")) or bool(tev) or bool(flags)
        if not started:
            continue
        if st["established"]:
            out.append(C.v("single-outcome", "%s/still-established/%s" % (pid, role), "%s: is_established still true at the end: %s" % (lab, st)))
        # Signatures are per *pair* of distinct reporting sites (event kind @ function that reported it), so that
        # a triple report is the union of its pairs and the space of signatures stays small and narrow.
        # ... and say when both reports of a pair came from one and the same thread (no race between threads
        # involved: that thread simply reported twice)
        tl = sorted(("%s@%s" % (h["evt"][4:], h.get("origin")), h["tid"]) for h in tevh)
        pairs_ = sorted(set((a, b + ("/same-thread" if ta == tb else "")) for i, (a, ta) in enumerate(tl) for (b, tb) in tl[i + 1:]))
        if len(flags) > 1:
            want = set(f.upper() for f in flags)
            fp = [(a, b) for a, b in pairs_ if {a.split("@")[0], b.split("@")[0]} == want] or [("+".join(tevo),)]
            for pr in fp:
                out.append(C.v("single-outcome", "%s/two-outcome-flags/%s/%s/%s" % (pid, role, "+".join(flags), "+".join(pr)), "%s reports %s (events %s)" % (lab, flags, tevo)))
        if len(tev) > 1:
            for pr in pairs_:
                out.append(C.v("single-outcome", "%s/terminal-event-count/%s/%s" % (pid, role, "+".join(pr)), "%s fired terminal events %s" % (lab, [(h["evt"], h.get("origin"), h["seq"]) for h in tevh])))
        saw_rq = lab.startswith("req") or any(h["pdu"] == "A_ASSOCIATE_RQ" for h in r.evts(lab, "EVT_PDU_RECV"))
        if saw_rq and len(flags) == 0 and _negotiated(r, lab):
            out.append(C.v("single-outcome", "%s/no-outcome/%s" % (pid, role), "%s ended with no outcome flag: %s, events %s" % (lab, st, tev)))
        if flags and tev and len(flags) == 1 and len(tev) == 1:
            want = {"released": "EVT_RELEASED", "aborted": "EVT_ABORTED", "rejected": "EVT_REJECTED"}[flags[0]]
            if tev[0] != want:
                out.append(C.v("single-outcome", "%s/event-flag-mismatch/%s/%s-%s" % (pid, role, flags[0], tev[0]), "%s flag %s but event %s" % (lab, flags[0], tev[0])))
        if saw_rq and flags and not tev and _negotiated(r, lab):
            out.append(C.v("single-outcome", "%s/no-terminal-event/%s/%s" % (pid, role, flags[0]), "%s ended %s but fired no terminal event" % (lab, flags[0])))
    return out


def _negotiated(r, lab):
    """The association got as far as sending or receiving an A-ASSOCIATE-RQ."""
    if lab.startswith("req"):
        return any(h["pdu"] == "A_ASSOCIATE_RQ" for h in r.evts(lab, "EVT_PDU_SENT"))
    return bool(r.evts(lab, "EVT_REQUESTED"))


def outcome(st):
    for k in ("released", "aborted", "rejected"):
        if st.get(k):
            return k
    return "none"


def check_agreement(pid, r, faulty, skip=()):
    """Pairwise agreement of the two sides' outcomes."""
    out = []
    for req, acc, cid in pairs(r):
        if req is None or acc is None or req in skip or acc in skip:
            continue
        if not _negotiated(r, req) or not _negotiated(r, acc):
            continue
        a, b = outcome(r.final[req]), outcome(r.final[acc])
        if "none" in (a, b):
            continue
        if any(len([k for k in ("released", "aborted", "rejected") if r.final[x][k]]) > 1 for x in (req, acc)):
            continue  # reported by the single-outcome clause
        if a == b:
            continue
        pair = "%s-%s" % (a, b)
        if faulty and fault_fired(r):
            continue
        # one side released, the other aborted: legal only for the side that
        # *answered* the release (its outcome is final once it wrote the RP) while
        # the requesting side gave up (abort) before the RP reached it
        if {a, b} == {"released", "aborted"}:
            rel, ab = (req, acc) if a == "released" else (acc, req)
            rel_wrote_rp = any(h["pdu"] == "A_RELEASE_RP" for h in r.evts(rel, "EVT_PDU_SENT"))
            ab_got_rp_first = _rp_before_abort(r, ab)
            if rel_wrote_rp and not ab_got_rp_first:
                continue
            # how the side that says "released" got there: it never wrote an A-RELEASE-RP (the abort / closed
            # connection overtook its answer), or it did and the other side aborted although it had received it
            pair += "/released-side-" + ("wrote-rp" if rel_wrote_rp else "never-wrote-rp")
        if {a, b} == {"rejected", "aborted"}:
            # requestor gave up (timeout/abort) before the rejection reached it
            # ("before": a rejection that arrives after the requestor's ACSE timeout made it abort does not count)
            ab_seq = [h["seq"] for h in r.evts(req, "EVT_ABORTED")]
            rj_seen = any(h["pdu"] == "A_ASSOCIATE_RJ" and (not ab_seq or h["seq"] < ab_seq[0]) for h in r.evts(req, "EVT_PDU_RECV"))
            if b == "rejected" and a == "aborted" and not rj_seen:
                continue
        out.append(C.v("agreement", "%s/outcome-mismatch/req-%s/acc-%s%s" % (pid, a, b, pair[len("%s-%s" % (a, b)):]), "conn %d: requestor %s=%s acceptor %s=%s" % (cid, req, r.final[req], acc, r.final[acc])))
    return out


def _rp_before_abort(r, lab):
    """True if `lab` had received the peer's A-RELEASE-RP before its abort was decided."""
    rp = [h["seq"] for h in r.evts(lab, "EVT_PDU_RECV") if h["pdu"] == "A_RELEASE_RP"]
    ab = [h["seq"] for h in r.evts(lab, "EVT_ABORTED")]
    if not rp:
        return False
    if not ab:
        return True
    return rp[0] < ab[0]


def check_liveness(pid, r, sc, skip=()):
    out = []
    if r.failure:
        roles = sorted(set((t.get("role") or "?").split(":")[0] for t in (r.failure_info or []))) if r.failure == "stuck" else []
        out.append(C.v("liveness", "%s/run-%s/%s" % (pid, r.failure, C.hang_where(r)), "run ended %s: %s" % (r.failure, r.failure_info)))
        return out
    done = r.obs.get("scripts_done_t")
    bound = r.obs.get("bound")
    if done is None:
        return out
    for t in r.tasks:
        role = t["role"] or ""
        if role.split(":")[-1] in skip:
            continue
        if role.startswith(("assoc:", "dul:")) and t["exit_t"] is not None and t["exit_t"] > done + bound:
            out.append(C.v("liveness", "%s/late-exit/%s" % (pid, role.split(":")[0]), "%s exited %.3fs after the last user action returned (bound %.3f)" % (role, t["exit_t"] - done, bound)))
    for lab, st in sorted(r.final.items()):
        if "error" in st or lab in skip:
            continue
        if st.get("alive") or st.get("dul_alive"):
            out.append(C.v("liveness", "%s/thread-left/%s" % (pid, lab[:3]), "%s threads still alive: %s" % (lab, st)))
        if r.evts(lab, "EVT_CONN_OPEN") and not st.get("sock_closed"):
            out.append(C.v("liveness", "%s/socket-open/%s/%s" % (pid, lab[:3], outcome(st)), "%s socket not closed at the end: %s" % (lab, st)))
    return out


def check_provider_idle(pid, r):
    """C05: every provider that left Sta1 came back to Sta1 last, and no thread died."""
    out = []
    for lab, st in sorted(r.final.items()):
        if "error" in st:
            continue
        tr = r.evts(lab, "EVT_FSM_TRANSITION")
        if not tr:
            continue
        if tr[-1]["next"] != "Sta1" or st["fsm"] != "Sta1":
            out.append(C.v("back-to-idle", "%s/not-idle/%s/%s" % (pid, lab[:3], st["fsm"]), "%s provider ended in %s (last transition %s+%s->%s)" % (lab, st["fsm"], tr[-1]["state"], tr[-1]["fsm_event"], tr[-1]["next"])))
    return out


def check_back_to_idle(pid, r, dead=()):
    """Every provider that processed an event ends in Sta1 with its threads finished and its transport
    connection closed.  The cause suffix separates the two situations in which pynetdicom's ACSE layer stops the
    provider thread outright (known findings) from everything else."""
    out = []
    for lab, st in sorted(r.final.items()):
        if "error" in st or lab in dead:
            continue
        tr = r.evts(lab, "EVT_FSM_TRANSITION")
        if not tr:
            continue
        cause = "other"
        if tr[-1]["next"] != "Sta1" or st["fsm"] != "Sta1":
            if lab.startswith("acc") and not r.evts(lab, "EVT_REQUESTED") and not st.get("dul_alive"):
                # the association thread gave up waiting for the A-ASSOCIATE-RQ (ACSE timeout) and stopped the provider
                cause = "request-not-received-within-acse-timeout"
            if lab.startswith("req") and any(h.get("origin") == "_negotiate_as_requestor" for h in r.evts(lab, "EVT_ABORTED")):
                # the provider reported an abort while the requestor was negotiating; ACSE stops the DUL thread at once
                cause = "aborted-during-negotiation"
            out.append(C.v("back-to-idle", "%s/not-idle/%s/%s/%s" % (pid, lab[:3], st["fsm"], cause),
                           "%s provider ended in %s (last transition %s+%s->%s)" % (lab, st["fsm"], tr[-1]["state"], tr[-1]["fsm_event"], tr[-1]["next"])))
        if st.get("dul_alive") or st.get("alive"):
            out.append(C.v("back-to-idle", "%s/thread-left/%s" % (pid, lab[:3]), "%s: threads still running at the end: %s" % (lab, st)))
        if r.evts(lab, "EVT_CONN_OPEN") and not st.get("sock_closed"):
            out.append(C.v("back-to-idle", "%s/socket-open/%s/%s/%s" % (pid, lab[:3], st["fsm"], cause), "%s: transport connection not closed at the end: %s" % (lab, st)))
    return out


def check_history(pid, r, strict_pdus=True, judge_recv=True):
    """C27: well-formedness of the notification history per association.
    judge_recv=False when the peer deliberately wrote bytes that are not PDUs
    (then "the PDUs that crossed the wire" is not defined for that direction)."""
    out = []
    conns = assoc_conn(r)
    for lab in sorted(r.final):
        ev = r.evts(lab)
        if not ev:
            continue
        role = lab[:3]
        # FSM chain
        prev = "Sta1"
        for h in ev:
            if h["evt"] != "EVT_FSM_TRANSITION":
                continue
            if h["state"] != prev:
                out.append(C.v("fsm-chain", "%s/fsm-chain-broken/%s/%s-%s" % (pid, role, prev, h["state"]), "%s: transition starts in %s but previous ended in %s" % (lab, h["state"], prev)))
                break
            prev = h["next"]
        names = [h["evt"] for h in ev]
        opens = [i for i, n in enumerate(names) if n == "EVT_CONN_OPEN"]
        closes = [i for i, n in enumerate(names) if n == "EVT_CONN_CLOSE"]
        if opens:
            first_other = next((i for i, n in enumerate(names) if n not in ("EVT_CONN_OPEN", "EVT_FSM_TRANSITION", "EVT_ACSE_SENT", "EVT_REQUESTED")), None)
            # requestor: the request primitive and AE-1 precede the TCP connection by construction
            limit_names = ("EVT_DATA_SENT", "EVT_DATA_RECV", "EVT_PDU_SENT", "EVT_PDU_RECV", "EVT_ESTABLISHED", "EVT_ACCEPTED",
                           "EVT_RELEASED", "EVT_DIMSE_SENT", "EVT_DIMSE_RECV", "EVT_CONN_CLOSE")
            early = [n for n in names[:opens[0]] if n in limit_names]
            if role == "acc":
                # an acceptor association exists only because a connection was accepted: nothing can precede it
                early = list(names[:opens[0]])
            if early:
                out.append(C.v("conn-order", "%s/before-open/%s/%s" % (pid, role, early[0]), "%s: %s before EVT_CONN_OPEN" % (lab, early)))
            if len(opens) > 1:
                out.append(C.v("conn-order", "%s/open-twice/%s" % (pid, role), "%s: EVT_CONN_OPEN fired %d times" % (lab, len(opens))))
            if len(closes) > 1:
                out.append(C.v("conn-order", "%s/close-count/%s/%d" % (pid, role, len(closes)), "%s: EVT_CONN_CLOSE fired %d times" % (lab, len(closes))))
            if len(closes) == 0 and not r.failure:
                cause = "other"
                if lab.startswith("acc") and not r.evts(lab, "EVT_REQUESTED"):
                    cause = "request-not-received-within-acse-timeout"
                if lab.startswith("req") and any(h.get("origin") == "_negotiate_as_requestor" for h in r.evts(lab, "EVT_ABORTED")):
                    cause = "aborted-during-negotiation"
                out.append(C.v("conn-order", "%s/close-count/%s/0/%s" % (pid, role, cause), "%s: connection opened but EVT_CONN_CLOSE never fired" % lab))
            if closes:
                late = [n for n in names[closes[0] + 1:] if n in ("EVT_DATA_SENT", "EVT_DATA_RECV", "EVT_PDU_SENT", "EVT_PDU_RECV", "EVT_CONN_OPEN")]
                if late:
                    out.append(C.v("conn-order", "%s/after-close/%s/%s" % (pid, role, late[0]), "%s: %s after EVT_CONN_CLOSE" % (lab, late)))
        elif closes:
            out.append(C.v("conn-order", "%s/close-without-open/%s" % (pid, role), "%s: EVT_CONN_CLOSE without EVT_CONN_OPEN" % lab))
        est = [i for i, n in enumerate(names) if n == "EVT_ESTABLISHED"]
        if len(est) > 1:
            out.append(C.v("established", "%s/established-twice/%s" % (pid, role), "%s: EVT_ESTABLISHED fired %d times" % (lab, len(est))))
        term = [i for i, n in enumerate(names) if n in ("EVT_RELEASED", "EVT_ABORTED")]
        if est and term and term[0] < est[0]:
            out.append(C.v("established", "%s/terminal-before-established/%s" % (pid, role), "%s: %s before EVT_ESTABLISHED" % (lab, names[term[0]])))
        # PDU notifications vs wire
        cid = conns.get(lab)
        if cid is not None:
            mine, theirs = ("c2s", "s2c") if lab.startswith("req") else ("s2c", "c2s")
            sent_wire, rest_out = C.conn_pdus(r, cid, mine)
            sent_evt = [h for h in ev if h["evt"] == "EVT_PDU_SENT"]
            wire_bytes = [W.pdu(p["type"], p["payload"]) for p in sent_wire]
            evt_bytes = [h.get("bytes") for h in sent_evt]
            faulted = fault_fired(r)
            if evt_bytes != wire_bytes:
                ok = False
                if not strict_pdus or faulted or rest_out:
                    # the PDU being written when the connection broke may be partial/missing
                    ok = evt_bytes[:len(wire_bytes)] == wire_bytes and len(evt_bytes) - len(wire_bytes) <= 1
                    ok = ok or (wire_bytes[:len(evt_bytes)] == evt_bytes and len(wire_bytes) - len(evt_bytes) <= 1)
                if not ok:
                    k = next((i for i in range(min(len(evt_bytes), len(wire_bytes))) if evt_bytes[i] != wire_bytes[i]), min(len(evt_bytes), len(wire_bytes)))
                    kind = "extra-notification" if len(evt_bytes) > len(wire_bytes) else ("missing-notification" if len(evt_bytes) < len(wire_bytes) else "different")
                    out.append(C.v("pdu-sent", "%s/pdu-sent-mismatch/%s/%s" % (pid, role, kind), "%s: EVT_PDU_SENT list (%d) != PDUs written on the wire (%d), first difference at %d" % (lab, len(evt_bytes), len(wire_bytes), k)))
            # received: every EVT_PDU_RECV must be a PDU the peer wrote, in order (prefix)
            peer_wire, peer_rest = C.conn_pdus(r, cid, theirs)
            if not judge_recv or any(not (1 <= p["type"] <= 7) for p in peer_wire):
                # the peer wrote bytes that do not frame as PDUs: "the PDUs on the wire" is not defined for them
                continue
            peer_bytes = [W.pdu(p["type"], p["payload"]) for p in peer_wire]
            recv_evt = [h.get("bytes") for h in ev if h["evt"] == "EVT_PDU_RECV"]
            raw_recv = [h.get("data") for h in ev if h["evt"] == "EVT_DATA_RECV"]
            if raw_recv != peer_bytes[:len(raw_recv)]:
                out.append(C.v("pdu-recv", "%s/data-recv-mismatch/%s" % (pid, role), "%s: EVT_DATA_RECV payloads are not a prefix of the PDUs the peer wrote" % lab))
            if len(recv_evt) > len(peer_bytes):
                out.append(C.v("pdu-recv", "%s/pdu-recv-extra/%s" % (pid, role), "%s: %d EVT_PDU_RECV but peer wrote %d PDUs" % (lab, len(recv_evt), len(peer_bytes))))
            # every received PDU the state machine acts on was announced by EVT_PDU_RECV first: the i-th transition for
            # "<type> PDU received" needs at least i EVT_PDU_RECV notifications of that type before it
            seen = {}
            acted = {}
            for h in ev:
                if h["evt"] == "EVT_PDU_RECV":
                    seen[h["pdu"]] = seen.get(h["pdu"], 0) + 1
                elif h["evt"] == "EVT_FSM_TRANSITION" and h["fsm_event"] in _EVT_PDU:
                    t = _EVT_PDU[h["fsm_event"]]
                    acted[t] = acted.get(t, 0) + 1
                    if acted[t] > seen.get(t, 0):
                        out.append(C.v("pdu-recv", "%s/pdu-recv-missing/%s/%s" % (pid, role, t), "%s: the provider acted on %s (%s in %s) without a preceding EVT_PDU_RECV for it" % (lab, t, h["fsm_event"], h["state"])))
                        break
    return out


def check_wire_conformance(pid, r):
    """C12 (passive part): structural conformance of every A-ASSOCIATE-RQ/AC
    pynetdicom wrote in this run."""
    from props import assoc_wire

    out = []
    for req, acc, cid in pairs(r):
        c2s, _ = C.conn_pdus(r, cid, "c2s")
        s2c, _ = C.conn_pdus(r, cid, "s2c")
        rq = next((p for p in c2s if p["type"] == 1), None)
        ac = next((p for p in s2c if p["type"] == 2), None)
        if rq is not None and req is not None:
            out.extend(assoc_wire.check_rq(pid, rq["payload"]))
        if ac is not None and acc is not None and rq is not None:
            out.extend(assoc_wire.check_ac(pid, ac["payload"], rq["payload"]))
    return out


_EVT_PDU = {"Evt3": "A_ASSOCIATE_AC", "Evt4": "A_ASSOCIATE_RJ", "Evt6": "A_ASSOCIATE_RQ", "Evt10": "P_DATA_TF",
            "Evt12": "A_RELEASE_RQ", "Evt13": "A_RELEASE_RP", "Evt16": "A_ABORT_RQ"}
_PDU_CLS = {"A_ASSOCIATE_RQ": 1, "A_ASSOCIATE_AC": 2, "A_ASSOCIATE_RJ": 3, "P_DATA_TF": 4,
            "A_RELEASE_RQ": 5, "A_RELEASE_RP": 6, "A_ABORT_RQ": 7}


def check_fsm_lockstep(pid, r):
    """Every transition the provider reports must be the cell PS3.8 Table 9-10
    prescribes (action and next state), and the PDUs it sent while performing
    the action must be the ones the action's definition lists."""
    from ref import fsm as F

    out = []
    for lab in sorted(r.final):
        ev = r.evts(lab)
        sent_since = []
        prev_seq = -1
        for h in ev:
            if h["evt"] == "EVT_PDU_SENT":
                sent_since.append(h)
                continue
            if h["evt"] != "EVT_FSM_TRANSITION":
                continue
            cell = F.expect(h["state"], h["fsm_event"])
            sig_cell = "%s+%s" % (h["state"], h["fsm_event"])
            if cell is None:
                out.append(C.v("fsm-cell", "%s/undefined-cell/%s" % (pid, sig_cell), "%s processed %s which PS3.8 does not define" % (lab, sig_cell)))
                sent_since = []
                continue
            act, nexts = cell
            if h["action"] != act:
                out.append(C.v("fsm-cell", "%s/wrong-action/%s/%s" % (pid, sig_cell, h["action"]), "%s: %s performed %s, PS3.8 says %s" % (lab, sig_cell, h["action"], act)))
            want_next = nexts
            if act == "AR-8":
                want_next = (F.ar8_next(lab.startswith("req")),)
            if h["next"] not in want_next:
                out.append(C.v("fsm-cell", "%s/wrong-next-state/%s/%s" % (pid, sig_cell, h["next"]), "%s: %s went to %s, PS3.8 says %s" % (lab, sig_cell, h["next"], want_next)))
            eff = F.EFFECTS[act]
            if act == "AE-6" and h["next"] == "Sta13":
                eff = eff["alt"]
            want = [eff["pdu"]] if eff["pdu"] else []
            got = [_PDU_CLS.get(x["pdu"]) for x in sent_since]
            # a PDU whose write failed because the transport connection was already gone is not "sent":
            # the failed write makes the transport report Evt17, which must then be the next thing the provider sees
            send_failed = bool(want and not got) and any(
                x["evt"] == "EVT_FSM_TRANSITION" and x["seq"] > h["seq"] and x["fsm_event"] == "Evt17" for x in ev)
            if want and not got and not send_failed:
                # ... unless the provider was stopped before it could read the connection again; the simulated
                # socket records each refused write (same thread, since the previous transition)
                send_failed = any(x["kind"] == "send_fail" and x["tid"] == h.get("tid") and prev_seq < x["seq"] <= h["seq"] for x in r.hist)
            prev_seq = h["seq"]
            if got != want and not (want and not got and fault_fired(r)) and not send_failed:
                out.append(C.v("fsm-effect", "%s/wrong-pdu-sent/%s/%s" % (pid, act, "-".join(map(str, got)) or "none"), "%s: action %s in %s sent PDUs %s, PS3.8 says %s" % (lab, act, sig_cell, got, want)))
            if eff.get("abort_source") is not None and got == want:
                b = sent_since[0].get("bytes")
                want_src = eff["abort_source"]
                if act == "AA-1" and h["fsm_event"] == "Evt15":
                    # the A-ABORT request primitive names its source: 0 for the service user (Association.abort()),
                    # 2 when pynetdicom's own ACSE/DIMSE layer aborts (A-P-ABORT or A-ABORT with provider source)
                    # primitives are consumed in FIFO order, one per Evt15 transition
                    prims = [x for x in ev if x["evt"] == "EVT_ACSE_SENT" and x.get("prim") in ("A_ABORT", "A_P_ABORT") and x["seq"] <= h["seq"]]
                    k = len([x for x in ev if x["evt"] == "EVT_FSM_TRANSITION" and x["fsm_event"] == "Evt15" and x["seq"] < h["seq"]])
                    if k < len(prims) and prims[k].get("abort_source") in (0, 2):
                        want_src = prims[k]["abort_source"]
                if b is not None and len(b) >= 10 and b[8] != want_src:
                    out.append(C.v("fsm-effect", "%s/wrong-abort-source/%s/%d" % (pid, act, b[8]), "%s: %s sent A-ABORT with source %d, expected %d" % (lab, act, b[8], want_src)))
            sent_since = []
    return out


import re as _re

_CELL_RE = _re.compile(r"Invalid event '(Evt\d+)' for the current state '(Sta\d+)'")


def thread_deaths(pid, r):
    """Violations for simulated threads that died with an exception; an
    InvalidEventError is identified by its (state, event) cell and the role of
    the provider.  Returns (violations, labels of associations whose provider
    or association thread died - their other clauses are consequences)."""
    out = []
    dead = set()
    for d in r.died:
        role = d["role"] or "?"
        kind = role.split(":")[0]
        lab = role.split(":")[1] if ":" in role else None
        if lab:
            dead.add(lab)
        m = _CELL_RE.search(d["msg"] or "")
        if d["exc"] == "InvalidEventError" and m:
            side = lab[:3] if lab else "?"
            out.append(C.v("undefined-event", "%s/undefined-event/%s/%s+%s" % (pid, side, m.group(2), m.group(1)),
                           "provider thread %s died: %s" % (role, d["msg"])))
        else:
            out.append(C.v("thread-died", "%s/thread-died/%s/%s" % (pid, kind, d["exc"]), "thread %s died: %s: %s" % (role, d["exc"], d["msg"])))
    return out, dead
