"""C16 - every DIMSE message pynetdicom sends is completely receivable by its peer."""
from props import common as C
from ref import wire as W

ID = "C16"
LEVEL = "exploration"
TECHNIQUE = "deterministic simulation of two real AEs: every send_* operation and SCP response with absent/empty/non-empty data sets; independent wire reader checks CommandDataSetType against the data-set PDVs actually sent"
RULE = (
    "a case = one association between two real AEs on which 1-3 DIMSE operations are performed (C-ECHO/STORE/FIND/GET/MOVE, "
    "N-GET/SET/ACTION/CREATE/DELETE/EVENT-REPORT) with the request data set absent, empty or non-empty and the SCP handler "
    "answering with absent, empty or non-empty data sets; non-trivial = at least one message with an empty or absent optional "
    "data set crossed the wire; distinct = distinct (operation, request data-set kind, response data-set kind) combinations "
    "x segmentation/max-PDU configuration (inputs dominate: schedule diversity adds nothing to this property)"
    " Non-empty data sets are also sized to fill 1-3 fragments of the peer's maximum exactly (no short last fragment)."
    " C-STORE is sent from memory and, in chunked mode, straight from a DICOM file - including a file that holds only the preamble and File Meta (empty data set)."
)
ASSUMPTIONS = ["fault-free network", "inputs dominate; the simulator supplies the deterministic two-party execution"]

OPS = ["echo", "store", "store_file", "find", "get", "move", "n_get", "n_set", "n_action", "n_create", "n_delete", "n_event_report"]
DS_KINDS = ["nonempty", "empty", "none"]


def budget(tier):
    if tier == "thorough":
        return {"runs": 4000, "wall": 1200, "selftest": 32, "shrink_s": 40}
    return {"runs": 260, "wall": 200, "selftest": 12, "shrink_s": 20}


def directed(tier):
    out = []
    for op in OPS:
        for rq in DS_KINDS:
            for rs in DS_KINDS:
                if not _valid(op, rq, rs):
                    continue
                out.append({"ops": [{"op": op, "rq": rq, "rsp": rs}], "max_pdu": 16382, "sched": {"switch_pct": 20}, "net": {"seg": "whole"}})
                if "nonempty" in (rq, rs):
                    # the same message with data sets that fill 1 and 2 fragments of the peer's maximum exactly
                    for k, mp in ((1, 256), (2, 16382)):
                        out.append({"ops": [{"op": op, "rq": rq, "rsp": rs, "rq_fit": k, "rsp_fit": k}], "max_pdu": mp, "sched": {"switch_pct": 20}, "net": {"seg": "whole"}})
    return out


def _valid(op, rq, rs):
    if op in ("echo", "n_delete"):
        return rq == "none" and rs == "none"
    if op == "store":
        return rq == "nonempty" and rs == "none"
    if op == "store_file":
        # chunked send straight from a DICOM file; "empty" = a file that holds only the preamble and File Meta
        return rq in ("nonempty", "empty") and rs == "none"
    if op in ("find", "get", "move"):
        return rq in ("nonempty", "empty")
    if op == "n_get":
        return rq == "none"
    if op == "n_set":
        return rq in ("nonempty", "empty")
    return True


def gen(rng, idx, tier):
    ops = []
    for _ in range(rng.choice([1, 2, 3])):
        while True:
            op, rq, rs = rng.choice(OPS), rng.choice(DS_KINDS), rng.choice(DS_KINDS)
            if _valid(op, rq, rs):
                break
        ops.append({"op": op, "rq": rq, "rsp": rs})
        # a non-empty data set that fills its last fragment exactly (k fragments of the peer's maximum)
        if rng.randrange(3) == 0:
            ops[-1]["rq_fit"] = rng.choice([1, 2, 3])
        if rng.randrange(3) == 0:
            ops[-1]["rsp_fit"] = rng.choice([1, 2, 3])
    return {"ops": ops, "max_pdu": rng.choice([0, 64, 65, 256, 257, 16382]), "sched": C.gen_sched(rng, fine_pct=10), "net": C.gen_net(rng)}


def shrink(sc):
    for i in range(len(sc["ops"])):
        if len(sc["ops"]) > 1:
            d = dict(sc)
            d["ops"] = sc["ops"][:i] + sc["ops"][i + 1:]
            yield d
    if sc["net"] != {"seg": "whole"}:
        d = dict(sc)
        d["net"] = {"seg": "whole"}
        yield d
    if sc["max_pdu"] != 16382:
        d = dict(sc)
        d["max_pdu"] = 16382
        yield d


def _fit(ds, k, max_pdu):
    """Pad `ds` so that its encoded length is exactly k (or the next possible
    multiple) times the room a data-set PDV has under `max_pdu`."""
    from pynetdicom.dsutils import encode

    if not k or max_pdu <= 0 or ds is None:
        return ds
    room = max_pdu - 6
    l0 = len(encode(ds, True, True))
    target = k * room
    while target < l0 + 10:
        target += room
    pad = target - l0 - 8
    if pad % 2 == 0:
        ds.ImageComments = "x" * pad
    return ds


def _ds(kind, n=0, fit=None, max_pdu=0):
    from pydicom.dataset import Dataset

    if kind == "none":
        return None
    if kind == "empty":
        return Dataset()
    ds = Dataset()
    ds.PatientName = "X^%d" % n
    ds.PatientID = "P%d" % n
    return _fit(ds, fit, max_pdu)


def execute(sc, ctx):
    from pynetdicom import evt, build_role
    from pynetdicom.sop_class import Verification

    sim = ctx.sim
    cur = {"rsp": "none", "fit": None}
    mp = sc["max_pdu"]

    def rec(name):
        def deco(fn):
            def h(event):
                sim.record("handler", op=name, assoc=ctx.label(event.assoc), msg_id=getattr(event.request, "MessageID", None))
                return fn(event)
            return h
        return deco

    @rec("echo")
    def on_echo(event):
        return 0x0000

    @rec("store")
    def on_store(event):
        return 0x0000

    def on_find(event):
        sim.record("handler", op="find", assoc=ctx.label(event.assoc), msg_id=event.request.MessageID)
        k = cur["rsp"]
        if k == "nonempty":
            yield 0xFF00, _ds("nonempty", 1, cur["fit"], mp)
        elif k == "empty":
            yield 0xFF00, _ds("empty")

    def on_get(event):
        sim.record("handler", op="get", assoc=ctx.label(event.assoc), msg_id=event.request.MessageID)
        k = cur["rsp"]
        if k == "nonempty":
            yield 1
            yield 0xFF00, _fit(C.store_ds(0), cur["fit"], mp)
        elif k == "empty":
            yield 1
            yield 0xA701, None   # failure before any sub-operation: final response with empty failed list
        else:
            yield 0

    def on_move(event):
        sim.record("handler", op="move", assoc=ctx.label(event.assoc), msg_id=event.request.MessageID)
        k = cur["rsp"]
        if k == "nonempty":
            yield "127.0.0.1", 11113
            yield 1
            yield 0xFF00, _fit(C.store_ds(0), cur["fit"], 16382)
        elif k == "empty":
            yield None, None     # unknown destination
        else:
            yield "127.0.0.1", 11113
            yield 0

    def n_handler(name):
        def h(event):
            sim.record("handler", op=name, assoc=ctx.label(event.assoc), msg_id=event.request.MessageID)
            return 0x0000, _ds(cur["rsp"], 2, cur["fit"], mp)
        return h

    def on_n_delete(event):
        sim.record("handler", op="n_delete", assoc=ctx.label(event.assoc), msg_id=event.request.MessageID)
        return 0x0000

    hh = [(evt.EVT_C_ECHO, on_echo), (evt.EVT_C_STORE, on_store), (evt.EVT_C_FIND, on_find), (evt.EVT_C_GET, on_get),
          (evt.EVT_C_MOVE, on_move), (evt.EVT_N_GET, n_handler("n_get")), (evt.EVT_N_SET, n_handler("n_set")),
          (evt.EVT_N_ACTION, n_handler("n_action")), (evt.EVT_N_CREATE, n_handler("n_create")),
          (evt.EVT_N_DELETE, on_n_delete), (evt.EVT_N_EVENT_REPORT, n_handler("n_event_report"))]
    scp = ctx.make_ae("SCP", acse=30.0, dimse=60.0, network=120.0, max_pdu=sc["max_pdu"])
    for u in (C.VERIFICATION, C.PR_FIND, C.PR_GET, C.PR_MOVE, C.PRINTER, C.BASIC_FILM_SESSION):
        scp.add_supported_context(u)
    scp.add_supported_context(C.CT, scu_role=True, scp_role=True)
    scp.add_requested_context(C.CT)
    ctx.start_server(scp, handlers=hh)
    # C-MOVE destination: a second acceptor on port 11113
    dest = ctx.make_ae("DEST", acse=30.0, dimse=60.0, network=120.0)
    dest.add_supported_context(C.CT)
    ctx.start_server(dest, port=11113, handlers=[(evt.EVT_C_STORE, on_store)])

    scu = ctx.make_ae("SCU", acse=30.0, dimse=60.0, network=120.0, max_pdu=sc["max_pdu"])
    for u in (C.VERIFICATION, C.PR_FIND, C.PR_GET, C.PR_MOVE, C.PRINTER, C.BASIC_FILM_SESSION, C.CT):
        scu.add_requested_context(u)
    assoc = ctx.associate(scu, handlers=[(evt.EVT_C_STORE, on_store)], ext_neg=[build_role(C.CT, scu_role=True, scp_role=True)])
    ctx.obs["established"] = assoc.is_established
    res = ctx.obs["results"] = []
    inst = "1.2.840.10008.5.1.1.17"
    for i, op in enumerate(sc["ops"]):
        if not assoc.is_established:
            res.append("not-established")
            break
        cur["rsp"], cur["fit"] = op["rsp"], op.get("rsp_fit")
        o, ds = op["op"], _ds(op["rq"], i, op.get("rq_fit"), mp)
        mid = i + 1
        sim.record("user_op", op=o, phase="call", msg_id=mid)
        try:
            if o == "echo":
                st = assoc.send_c_echo(msg_id=mid)
                out = _st(st)
            elif o == "store":
                out = _st(assoc.send_c_store(_fit(C.store_ds(i), op.get("rq_fit"), mp), msg_id=mid))
            elif o == "store_file":
                import os
                import tempfile
                from pydicom.dataset import Dataset, FileMetaDataset
                from pynetdicom import _config

                fds = _fit(C.store_ds(i), op.get("rq_fit"), mp) if op["rq"] == "nonempty" else Dataset()
                meta = FileMetaDataset()
                meta.MediaStorageSOPClassUID = C.CT
                meta.MediaStorageSOPInstanceUID = "1.2.3.4.%d" % (i + 1)
                meta.TransferSyntaxUID = C.IVLE
                fds.file_meta = meta
                tmp = tempfile.mkdtemp(prefix="dsim-c16-")
                path = os.path.join(tmp, "in.dcm")
                fds.save_as(path, write_like_original=False)
                old_cfg = _config.STORE_SEND_CHUNKED_DATASET
                _config.STORE_SEND_CHUNKED_DATASET = True
                try:
                    out = _st(assoc.send_c_store(path, msg_id=mid))
                finally:
                    _config.STORE_SEND_CHUNKED_DATASET = old_cfg
                    import shutil

                    shutil.rmtree(tmp, ignore_errors=True)
            elif o == "find":
                out = [_st(s) for s, _ in assoc.send_c_find(ds, C.PR_FIND, msg_id=mid)]
            elif o == "get":
                out = [_st(s) for s, _ in assoc.send_c_get(ds, C.PR_GET, msg_id=mid)]
            elif o == "move":
                out = [_st(s) for s, _ in assoc.send_c_move(ds, "DEST", C.PR_MOVE, msg_id=mid)]
            elif o == "n_get":
                out = _st(assoc.send_n_get([0x00100010], C.PRINTER, inst, msg_id=mid)[0])
            elif o == "n_set":
                out = _st(assoc.send_n_set(ds, C.BASIC_FILM_SESSION, "1.2.3.4", msg_id=mid)[0])
            elif o == "n_action":
                out = _st(assoc.send_n_action(ds, 1, C.BASIC_FILM_SESSION, "1.2.3.4", msg_id=mid)[0])
            elif o == "n_create":
                out = _st(assoc.send_n_create(ds, C.BASIC_FILM_SESSION, "1.2.3.4", msg_id=mid)[0])
            elif o == "n_delete":
                out = _st(assoc.send_n_delete(C.BASIC_FILM_SESSION, "1.2.3.4", msg_id=mid))
            elif o == "n_event_report":
                out = _st(assoc.send_n_event_report(ds, 1, C.PRINTER, inst, msg_id=mid)[0])
        except Exception as e:  # noqa: BLE001 - the API refusing an input is not this property's business
            out = "raised:%s:%s" % (type(e).__name__, str(e)[:240])
        sim.record("user_op", op=o, phase="return", msg_id=mid, res=repr(out))
        res.append(out)
    if assoc.is_established:
        assoc.release()
    ctx.obs["final"] = ctx.assoc_state(assoc)


def _st(st):
    if st is None or "Status" not in st:
        return "empty"
    return st.Status


def wire_messages(r):
    """All DIMSE messages of all connections and directions, as reassembled by
    the independent reader: [(conn, dir, Message)], plus problems."""
    out, problems = [], []
    conns = sorted(set(w["conn"] for w in r.wire))
    for cid in conns:
        for d in ("c2s", "s2c"):
            pdus, _ = C.conn_pdus(r, cid, d)
            msgs, pr = W.messages(C.as_frames(pdus))
            out.extend((cid, d, m) for m in msgs)
            problems.extend("conn %d %s: %s" % (cid, d, p) for p in pr)
    return out, problems


def check(sc, r):
    out = C.generic_thread_death(r, ID)
    if r.failure:
        out.append(C.v("liveness", "C16/run-%s" % r.failure, "run ended %s" % r.failure))
        return out
    msgs, problems = wire_messages(r)
    for cid, d, m in msgs:
        if m.command is None:
            continue
        nm = m.name
        if m.says_dataset and m.n_ds_pdv == 0:
            out.append(C.v("flag-vs-fragments", "C16/dataset-announced-not-sent/%s" % nm,
                           "%s (conn %d %s, msg id %s): CommandDataSetType=0x%04x but no data-set PDV followed" % (nm, cid, d, m.command.get(W.T_MESSAGE_ID, m.command.get(W.T_MESSAGE_ID_RSP)), m.command.get(W.T_DATASET_TYPE, -1))))
        if not m.says_dataset and m.n_ds_pdv:
            out.append(C.v("flag-vs-fragments", "C16/dataset-sent-not-announced/%s" % nm, "%s: data-set PDVs follow a command set that says no data set" % nm))
    for p in problems:
        if "data-set PDV without" in p or "data-set PDV before" in p:
            out.append(C.v("flag-vs-fragments", "C16/stray-dataset-pdv", p))
    # receiver side: every request the requestor's API call put on the wire reached a handler,
    # and the call got a response (no DIMSE timeout / abort)
    res = r.obs.get("results", [])
    for i, op in enumerate(sc["ops"]):
        if i >= len(res):
            break
        o = res[i]
        if isinstance(o, str) and o.startswith("raised:"):
            if op["op"] in ("store", "store_file"):
                out.append(C.v("receivable", "C16/send-refused/%s" % op["op"], "op %d %s was refused by the API: %s" % (i, op, o)))
            continue
        if o == "not-established":
            out.append(C.v("receivable", "C16/association-lost-before/%s" % op["op"], "association no longer established before op %d (%s)" % (i, op)))
            break
        hop = "store" if op["op"] == "store_file" else op["op"]
        hs = [h for h in r.hist if h["kind"] == "handler" and h["op"] == hop and h.get("msg_id") == i + 1]
        if not hs:
            out.append(C.v("receivable", "C16/request-not-delivered/%s/%s" % (op["op"], op["rq"]), "op %d %s: the peer's %s handler was never invoked (result %r)" % (i, op, op["op"], o)))
        empty = o == "empty" or (isinstance(o, list) and (not o or o[-1] == "empty"))
        if empty:
            out.append(C.v("receivable", "C16/no-response/%s/%s/%s" % (op["op"], op["rq"], op["rsp"]), "op %d %s: caller got no (valid) response: %r" % (i, op, o)))
    fin = r.obs.get("final")
    if fin and r.obs.get("established") and not fin["released"]:
        out.append(C.v("receivable", "C16/not-released", "association did not end released: %s" % fin))
    return out


def nontrivial(sc, r):
    if any(op["rq"] != "nonempty" or op["rsp"] != "nonempty" for op in sc["ops"]):
        return (tuple((o["op"], o["rq"], o["rsp"], o.get("rq_fit"), o.get("rsp_fit")) for o in sc["ops"]), sc["max_pdu"], sc["net"].get("seg"))
    return None


def probes(sc, r):
    d = {}
    for op in sc["ops"]:
        d["op_%s_rq-%s_rsp-%s" % (op["op"], op["rq"], op["rsp"])] = True
    msgs, _ = wire_messages(r)
    d["messages_on_wire"] = len(msgs)
    d["messages_without_dataset"] = len([1 for _, _, m in msgs if m.command and not m.says_dataset])
    return d


def sample(sc, r):
    msgs, problems = wire_messages(r)
    return {"scenario": sc, "results": r.obs.get("results"), "wire_messages": [dict(m.summary(), conn=c, dir=d) for c, d, m in msgs][:12], "problems": problems[:5]}
