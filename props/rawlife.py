"""F2 scenario engine: one real pynetdicom AE (acceptor or requestor) against a
scripted byte-level peer (RawPeer).  Shared by C02, C03, C04, C05, C08, C13, C19."""
import random

from dsim.rawpeer import RawPeer
from props import common as C
from ref import wire as W

CONTEXTS = [(1, C.VERIFICATION, [C.IVLE]), (3, C.CT, [C.IVLE, C.EVLE]), (5, C.PR_FIND, [C.IVLE])]
FIND_DS = b"\x08\x00\x52\x00\x08\x00\x00\x00PATIENT "


def store_ds_bytes(n=40):
    # (0008,0016) SOPClassUID, (0008,0018) SOPInstanceUID, (0010,0010) PatientName - implicit VR LE
    import struct

    def el(g, e, v):
        if len(v) % 2:
            v += b" "
        return struct.pack("<HHL", g, e, len(v)) + v

    return el(8, 0x16, C.CT.encode() + b"\x00") + el(8, 0x18, b"1.2.3.4.5\x00") + el(0x10, 0x10, b"A" * n)


def build(step, max_pdu=16382):
    """Bytes for a peer 'send' step."""
    k = step["pdu"]
    if k == "rq":
        return W.associate_rq(contexts=step.get("contexts", CONTEXTS), called=step.get("called", "ANY-SCP"),
                              calling=step.get("calling", "RAWPEER"), max_len=step.get("max_len", 16382),
                              protocol_version=step.get("version", 1))
    if k == "ac":
        return W.associate_ac(results=step.get("results", [(1, 0, C.IVLE), (3, 0, C.IVLE), (5, 0, C.IVLE)]), max_len=step.get("max_len", 16382))
    if k == "rj":
        return W.associate_rj(*step.get("rsd", (1, 1, 1)))
    if k == "release_rq":
        return W.release_rq()
    if k == "release_rp":
        return W.release_rp()
    if k == "abort":
        return W.abort(*step.get("sr", (0, 0)))
    if k == "echo_rq":
        return b"".join(W.fragment(step.get("ctx", 1), W.rq("C-ECHO-RQ", step.get("msg_id", 1), C.VERIFICATION), None, max_pdu))
    if k == "echo_rsp":
        return b"".join(W.fragment(step.get("ctx", 1), W.rsp("C-ECHO-RSP", step.get("msg_id", 1), step.get("status", 0), C.VERIFICATION), None, max_pdu))
    if k == "find_rq":
        return b"".join(W.fragment(step.get("ctx", 5), W.rq("C-FIND-RQ", step.get("msg_id", 1), C.PR_FIND, True), FIND_DS, max_pdu))
    if k == "find_rsp":
        st = step.get("status", 0)
        has = st in (0xFF00, 0xFF01)
        return b"".join(W.fragment(step.get("ctx", 5), W.rsp("C-FIND-RSP", step.get("msg_id", 1), st, C.PR_FIND, has), FIND_DS if has else None, max_pdu))
    if k == "store_rq":
        ds = store_ds_bytes(step.get("n", 40))
        cmd = W.rq("C-STORE-RQ", step.get("msg_id", 1), C.CT, True, extra={W.T_AFFECTED_INSTANCE: "1.2.3.4.5"})
        return b"".join(W.fragment(step.get("ctx", 3), cmd, ds, step.get("frag", max_pdu)))
    if k == "store_rsp":
        return b"".join(W.fragment(step.get("ctx", 3), W.rsp("C-STORE-RSP", step.get("msg_id", 1), step.get("status", 0), C.CT, extra={W.T_AFFECTED_INSTANCE: "1.2.3.4.5"}), None, max_pdu))
    if k == "cancel":
        return b"".join(W.fragment(step.get("ctx", 5), W.rq("C-CANCEL-RQ", step.get("msg_id", 1)), None, max_pdu))
    if k == "unknown":
        return W.pdu(step.get("type", 0x0A), bytes(step.get("n", 4)))
    if k == "garbage":
        rng = random.Random(step.get("seed", 0))
        return bytes(rng.randrange(256) for _ in range(step.get("n", 20)))
    if k == "raw":
        return bytes.fromhex(step["hex"])
    raise ValueError("unknown pdu kind %r" % k)


def run_peer(ctx, p, steps, max_pdu=16382):
    """Execute peer steps on an already connected RawPeer; records what it saw."""
    sim = ctx.sim
    seen = []
    for i, st in enumerate(steps):
        do = st["do"]
        if do == "send":
            data = build(st, max_pdu)
            if "cut" in st:      # send only a prefix (the rest never comes)
                data = data[: st["cut"]]
            sim.record("peer_send", i=i, pdu=st["pdu"], n=len(data))
            if st.get("cuts"):
                ok = p.send_slow(data, st["cuts"], st.get("gap", 0.001))
            else:
                ok = p.send(data)
            if p.stalled:
                end = getattr(p, "end_action", "stall")
                if end == "close":
                    sim.record("peer_close", i=i, sent=p.sent)
                    sim.count("fault.close")
                    p.close()
                elif end == "reset":
                    sim.record("peer_reset", i=i, sent=p.sent)
                    p.reset()
                else:
                    sim.record("peer_stall", i=i, sent=p.sent)
                    sim.count("fault.stall")
                seen.append("stalled")
                break
            if not ok:
                seen.append("send-failed")
        elif do == "flood":
            # keep writing the same PDU for a while (a peer that ignores what it is told and keeps the provider's
            # receive path busy); stops when the connection is gone
            data = build(st, max_pdu)
            sent = 0
            for _k in range(st["n"]):
                if p.sock is None or p.sock._closed or not p.send(data):
                    break
                sent += 1
                ctx.sleep(st["gap"])
            sim.record("peer_flood", i=i, pdu=st["pdu"], sent=sent)
            sim.count("fault.pdu_flood")
            seen.append("flooded:%d" % sent)
        elif do == "sleep":
            ctx.sleep(st["d"])
        elif do == "recv":
            got = p.recv_pdu(st.get("t", 0.5))
            seen.append(got if isinstance(got, str) else got[0])
        elif do == "expect":
            got = p.recv_until(tuple(st["types"]), st.get("t", 0.5))
            seen.append(got if isinstance(got, str) else got[0])
        elif do == "drain":
            seen.append(p.drain(st.get("t", 0.5)))
        elif do == "close":
            sim.record("peer_close", i=i)
            p.close()
            break
        elif do == "reset":
            sim.record("peer_reset", i=i)
            p.reset()
            break
        elif do == "stall":
            sim.record("peer_stall", i=i)
            sim.count("fault.stall")
            break
    ctx.obs["peer_seen"] = seen
    ctx.obs["peer_done_t"] = sim.now
    sim.record("peer_done")
    return seen


def execute(sc, ctx, handlers=None, configure=None):
    """Generic F2 run.  sc['role'] is the role of the REAL side."""
    from pynetdicom import evt
    from pynetdicom.sop_class import Verification

    sim = ctx.sim
    aecfg = sc["ae"]
    invoked = ctx.obs.setdefault("handlers", [])

    def mk(name, ret):
        def h(event):
            sim.record("handler", op=name, assoc=ctx.label(event.assoc), ctx_id=event.context.context_id)
            invoked.append(name)
            act = aecfg.get("echo_act") if name == "echo" else None
            if act:
                # the handler itself ends the association (non-blocking abort / release from pynetdicom's own thread)
                sim.record("handler_act", op=name, act=act)
                sim.count("fault.handler_act")
                if aecfg.get("echo_act_sleep"):
                    ctx.sleep(aecfg["echo_act_sleep"])
                getattr(event.assoc, act)()
            return ret
        return h

    def on_find(event):
        sim.record("handler", op="find", assoc=ctx.label(event.assoc), ctx_id=event.context.context_id)
        invoked.append("find")
        for i in range(aecfg.get("find_k", 1)):
            if aecfg.get("find_sleep"):
                ctx.sleep(aecfg["find_sleep"])
            yield 0xFF00, C.small_ds(i)

    hh = [(evt.EVT_C_ECHO, mk("echo", 0)), (evt.EVT_C_STORE, mk("store", 0)), (evt.EVT_C_FIND, on_find)] + list(handlers or [])
    ae = ctx.make_ae("ANY-SCP" if sc["role"] == "acceptor" else "SCU", acse=aecfg["acse"], dimse=aecfg["dimse"],
                     network=aecfg["network"], connection=aecfg.get("connection"), max_pdu=aecfg.get("max_pdu", 16382))
    if configure:
        configure(ae)
    max_to = max(aecfg["acse"], aecfg["dimse"], aecfg["network"], aecfg.get("connection") or 0)
    ctx.obs["max_timeout"] = max_to
    for st in sc.get("stalls", []):
        def mkstall(st=st):
            def fire():
                t = ctx.task_by_role(st["role"])
                if t is not None and t.state != "done":
                    sim.stall(t, st["dur"])
                    sim.record("stall", role=st["role"], dur=st["dur"])
            return fire
        sim.at(st["at"], mkstall())
    if sc["role"] == "acceptor":
        ae.add_supported_context(Verification)
        ae.add_supported_context(C.CT, [C.IVLE, C.EVLE])
        ae.add_supported_context(C.PR_FIND)
        ctx.start_server(ae, handlers=hh)
        p = RawPeer(ctx)
        p.budget = sc.get("budget")
        p.end_action = sc.get("end", "stall")
        p.split_at = sc.get("split_at")
        p.split_gap = sc.get("split_gap", 0.0)
        p.connect()
        ctx.obs["cid"] = p.cid
        user_th = None
        if sc.get("user"):
            def acc_user():
                for a in sc["user"]:
                    ok = ctx.wait_until(lambda: any(x.is_established for x in ae.active_associations), a.get("wait", 1.0))
                    if not ok:
                        return
                    ctx.sleep(a.get("after", 0.0))
                    assocs = [x for x in ae.active_associations if x.is_acceptor]
                    if not assocs:
                        return
                    sim.record("user_op", op=a["op"], assoc=ctx.label(assocs[0]), phase="call")
                    try:
                        getattr(assocs[0], a["op"])()
                    except RuntimeError as e:
                        sim.record("user_op_error", exc=repr(e))
                    sim.record("user_op", op=a["op"], assoc=ctx.label(assocs[0]), phase="return")
            user_th = ctx.spawn(acc_user, "accuser")
        run_peer(ctx, p, sc["peer"])
        if user_th is not None:
            user_th.join()
    else:
        p = RawPeer(ctx)
        p.budget = sc.get("budget")
        p.end_action = sc.get("end", "stall")
        p.split_at = sc.get("split_at")
        p.split_gap = sc.get("split_gap", 0.0)
        p.listen(11113)

        def peer_thread():
            c = p.accept(timeout=2.0)
            if c is None:
                ctx.obs["peer_seen"] = ["no-connection"]
                return
            ctx.obs["cid"] = p.cid
            run_peer(ctx, p, sc["peer"])

        pt = ctx.spawn(peer_thread, "peer")
        ae.add_requested_context(Verification)
        ae.add_requested_context(C.CT, [C.IVLE])
        ae.add_requested_context(C.PR_FIND)
        res = ctx.obs["results"] = []
        sim.record("user_op", op="associate", phase="call")
        assoc = ctx.associate(ae, port=11113, handlers=hh)
        sim.record("user_op", op="associate", phase="return", established=assoc.is_established)
        ctx.obs["established"] = assoc.is_established
        for op in sc.get("user", []):
            from props.lifecycle import _do_op

            if not assoc.is_established and op["op"] not in ("sleep",):
                break
            res.append(_do_op(ctx, ae, assoc, op))
        if assoc.is_established and any(op["op"] == "find" for op in sc.get("user", [])):
            # an abandoned response iterator keeps the reactor paused: such a script ends the association itself
            res.append(_do_op(ctx, ae, assoc, {"op": "release"}))
        ctx.obs["user_done_t"] = sim.now
        sim.record("user_done")
        pt.join()
        if p.lsock is not None:
            p.lsock.close()
    ctx.obs["scripts_done_t"] = sim.now
    sim.record("scripts_done")
    bound = 4 * max_to + 1.0
    ctx.obs["bound"] = bound
    # the real side may not even have picked the connection up yet
    ctx.wait_until(lambda: bool(ctx.assocs), 0.2, step=0.001)
    ctx.wait_until(lambda: not any(a.is_alive() or a.dul.is_alive() for a in ctx.assocs.values()), bound, step=0.005)
    ctx.obs["quiesce_t"] = sim.now
    sim.record("quiesced", alive=[lab for lab, a in ctx.assocs.items() if a.is_alive() or a.dul.is_alive()])
    ctx.obs["raw_socket_closed"] = p.sock is None or p.sock._closed


def real_label(sc):
    return "acc0" if sc["role"] == "acceptor" else "req0"
