"""C02 - arbitrary received bytes never crash the provider or yield unstable PDUs."""
import random
import struct

from dsim.rawpeer import RawPeer
from props import common as C
from props import lifecycle as L
from props import rawlife as R
from ref import wire as W

ID = "C02"
LEVEL = "exploration"
TECHNIQUE = "deterministic simulation with a byte-level fault-injecting peer: grammar-generated conformant PDUs, mutants (bit flips, length rewrites, truncation, extension, unknown types) and random bytes are written to a real provider in Sta2, Sta5, Sta6 and Sta13 under random segmentation; oracle: no thread death, no hang, decode stability of every accepted PDU, conformant PDUs never rejected"
RULE = (
    "a case = a real acceptor (probe delivered in Sta2, Sta6 or Sta13) or a real requestor (probe in Sta5) receives, after a "
    "legal prefix, 1-3 probe byte strings of class (a) conformant PDUs built by an independent PS3.8 writer with legal corner "
    "cases (16-char and padded titles, 64-char UIDs, every user-information sub-item kind, 1-40 contexts, multi-PDV and empty "
    "P-DATA), (b) mutants of those (bit flip, length-field rewrite at header/item/sub-item level, truncation, extension, unknown "
    "PDU/item type, zero/oversize length, non-ASCII title bytes) or (c) random bytes, randomly segmented; checked: no simulated "
    "thread dies, the run ends within the configured timeouts, every PDU surfaced by EVT_PDU_RECV re-encodes and re-decodes to an "
    "equal value, and a class (a) probe is never answered with Evt19; non-trivial = the probe is not a plain valid PDU; distinct "
    "= distinct probe byte strings x state; after the last probe the peer waits for the reaction or ends the connection at once (close / reset: for a truncated probe a connection ending part-way through a PDU), and whatever was received the provider must end idle (Sta1) with its connection closed, i.e. have reacted through the state machine"
)
STUBS = ["scripted RawPeer"]


def budget(tier):
    if tier == "thorough":
        return {"runs": 40000, "wall": 2400, "selftest": 32, "shrink_s": 40}
    return {"runs": 1400, "wall": 300, "selftest": 12, "shrink_s": 20}


# ----------------------------------------------------------------- class (a): conformant PDUs
def conformant(rng, kind):
    if kind == "rq":
        n = rng.choice([1, 1, 2, 5, 40])
        ctxs = [(2 * i + 1, rng.choice([C.VERIFICATION, C.CT, C.PR_FIND, ("1.2.826.0.1.3680043.9.3811." + "8" * 64)[:64]]),
                 rng.sample([C.IVLE, C.EVLE, C.EVBE, C.DEFL], rng.randrange(1, 4))) for i in range(n)]
        extra = []
        if rng.randrange(2):
            extra.append(W.role_item(C.CT, rng.randrange(2), rng.randrange(2)))
        if rng.randrange(3) == 0:
            extra.append(W.item(0x53, struct.pack(">HH", rng.randrange(1, 5), rng.randrange(1, 5))))
        if rng.randrange(3) == 0:
            extra.append(W.user_identity_item(rng.choice([1, 2, 3, 4, 5]), b"user" * rng.randrange(0, 4), b"pw" if rng.randrange(2) else b"", rng.randrange(2)))
        if rng.randrange(3) == 0:
            u = C.CT.encode()
            extra.append(W.item(0x56, struct.pack(">H", len(u)) + u + bytes(rng.randrange(256) for _ in range(rng.randrange(0, 6)))))
        if rng.randrange(3) == 0:
            u, s = C.CT.encode(), b"1.2.840.10008.4.2"
            rel = b"1.2.840.10008.5.1.4.1.1.88.22"
            relb = struct.pack(">H", len(rel)) + rel if rng.randrange(2) else b""
            body = struct.pack(">H", len(u)) + u + struct.pack(">H", len(s)) + s + struct.pack(">H", len(relb)) + relb
            extra.append(W.item(0x57, body))
        return W.associate_rq(called=rng.choice(["ANY-SCP", "ANY-SCP         ", "ABCDEFGHIJKLMNOP", "  ANY-SCP"]),
                              calling=rng.choice(["X", "ABCDEFGHIJKLMNOP", "a b c"]), contexts=ctxs,
                              max_len=rng.choice([0, 1, 16382, 2 ** 32 - 1]), impl_uid=rng.choice(["1.2.3", ("1.2.826.0.1.3680043.9.3811." + "9" * 64)[:64]]),
                              impl_version=rng.choice([None, "V1", "ABCDEFGHIJKLMNOP"]), extra_user=extra)
    if kind == "ac":
        res = [(1, 0, C.IVLE), (3, rng.choice([0, 1, 2, 3, 4]), C.IVLE), (5, 0, rng.choice([C.IVLE, C.EVLE]))]
        return W.associate_ac(results=res, max_len=rng.choice([0, 16382, 2 ** 32 - 1]), impl_version=rng.choice([None, "VER"]),
                              extra_user=[W.role_item(C.CT, 1, 1)] if rng.randrange(2) else [])
    if kind == "rj":
        return W.associate_rj(rng.choice([1, 2]), rng.choice([1, 2, 3]), rng.choice([1, 2, 3, 7]))
    if kind == "abort":
        return W.abort(rng.choice([0, 2]), rng.choice([0, 1, 2, 4, 5, 6]))
    if kind == "release_rq":
        return W.release_rq()
    if kind == "release_rp":
        return W.release_rp()
    if kind == "pdata":
        k = rng.randrange(5)
        if k == 0:
            return R.build({"pdu": "echo_rq", "msg_id": rng.randrange(1, 65536)})
        if k == 1:
            cmd = W.rq("C-ECHO-RQ", 9, C.VERIFICATION)
            parts = [cmd[i:i + 7] for i in range(0, len(cmd), 7)]
            return W.pdata([(1, True, j == len(parts) - 1, x) for j, x in enumerate(parts)])
        if k == 2:
            return R.build({"pdu": "store_rq", "n": rng.choice([0, 10, 300]), "frag": rng.choice([64, 16382])})
        if k == 3:
            return R.build({"pdu": "find_rq"})
        return W.pdata([(1, True, False, b""), (1, True, True, W.rq("C-ECHO-RQ", 3, C.VERIFICATION))])
    raise ValueError(kind)


def scramble_reserved(rng, b):
    """Set reserved bytes of an A-ASSOCIATE-RQ/AC to non-zero values: PS3.8 says of every one of them that it shall
    not be tested when received, so the PDU stays conformant for the receiver."""
    b = bytearray(b)
    if len(b) < 74 or b[0] not in (1, 2):
        return bytes(b)

    def maybe(i):
        if i < len(b) and rng.randrange(3) == 0:
            b[i] = rng.choice([0x01, 0x7F, 0x80, 0xFF])

    maybe(1)
    maybe(8)
    maybe(9)
    for i in range(42, 74):
        if rng.randrange(8) == 0:
            maybe(i)
    off = 74
    while off + 4 <= len(b):
        t = b[off]
        ln = int.from_bytes(b[off + 2:off + 4], "big")
        maybe(off + 1)
        end = off + 4 + ln
        sub = None
        if t == 0x20:
            for k in (5, 6, 7):
                maybe(off + k)
            sub = off + 8
        elif t == 0x21:
            maybe(off + 5)
            maybe(off + 7)
            sub = off + 8
        elif t == 0x50:
            sub = off + 4
        while sub is not None and sub + 4 <= end:
            maybe(sub + 1)
            sub += 4 + int.from_bytes(b[sub + 2:sub + 4], "big")
        off = end
    return bytes(b)


# ----------------------------------------------------------------- class (b): mutants
def mutate(rng, b):
    b = bytearray(b)
    k = rng.randrange(9)
    if k == 0 and b:
        i = rng.randrange(len(b))
        b[i] ^= 1 << rng.randrange(8)
        return bytes(b), "bitflip"
    if k == 1 and len(b) >= 6:
        v = rng.choice([0, 1, len(b) - 6 - 1, len(b) - 6 + 1, len(b) * 2, 0x7FFFFFFF, 0xFFFFFFFF])
        b[2:6] = struct.pack(">L", max(0, v) & 0xFFFFFFFF)
        return bytes(b), "pdu-length"
    if k == 2 and len(b) > 80:
        # rewrite a 2-byte item length somewhere in the variable field
        i = rng.randrange(74, len(b) - 3)
        b[i:i + 2] = struct.pack(">H", rng.choice([0, 1, 0xFFFF, rng.randrange(65536)]))
        return bytes(b), "item-length"
    if k == 3 and len(b) > 1:
        return bytes(b[: rng.randrange(1, len(b))]), "truncate"
    if k == 4:
        return bytes(b) + bytes(rng.randrange(256) for _ in range(rng.randrange(1, 20))), "extend"
    if k == 5 and b:
        b[0] = rng.choice([0, 8, 9, 0x10, 0x50, 0xFF])
        return bytes(b), "pdu-type"
    if k == 6 and len(b) > 80:
        i = rng.randrange(74, len(b) - 4)
        b[i] = rng.choice([0x00, 0x11, 0x22, 0x31, 0x41, 0x5A, 0xFF])
        return bytes(b), "item-type"
    if k == 7 and len(b) > 42:
        i = rng.randrange(10, 42)
        b[i] = rng.choice([0x00, 0x80, 0xFF, 0x0A, 0x5C])
        return bytes(b), "title-byte"
    if k == 8 and len(b) > 100:
        i = rng.randrange(80, len(b) - 8)
        for j in range(i, min(len(b), i + rng.randrange(1, 8))):
            b[j] = rng.randrange(256)
        return bytes(b), "garble"
    return bytes(b), "none"


def gen(rng, idx, tier):
    state = rng.choice(["sta2", "sta2", "sta6", "sta6", "sta13", "sta5"])
    probes = []
    for _ in range(rng.choice([1, 1, 2, 3])):
        cls = rng.choice(["a", "b", "b", "b", "c"])
        kinds = {"sta2": ["rq", "rq", "rq", "ac", "pdata", "abort"], "sta6": ["pdata", "pdata", "pdata", "abort", "release_rq", "rq", "ac", "rj", "release_rp"],
                 "sta13": ["pdata", "rq", "abort", "release_rq"], "sta5": ["ac", "ac", "ac", "rj", "abort", "pdata", "rq"]}[state]
        kind = rng.choice(kinds)
        r2 = random.Random(rng.randrange(10 ** 9))
        if cls == "c":
            data = bytes(r2.randrange(256) for _ in range(r2.choice([1, 5, 6, 7, 12, 100, 400])))
            probes.append({"cls": "c", "kind": "random", "hex": data.hex()})
        else:
            data = conformant(r2, kind)
            if kind in ("rq", "ac") and r2.randrange(3) == 0:
                data = scramble_reserved(r2, data)     # still conformant: reserved bytes are not to be tested
            mut = "none"
            if cls == "b" and kind == "rq" and r2.randrange(6) == 0:
                # a well-framed request in which one presentation context item has no transfer syntax sub-item
                n = r2.choice([1, 2, 5])
                ctxs = [(2 * i + 1, r2.choice([C.VERIFICATION, C.CT, "1.2.3.4.5.6"]), [C.IVLE]) for i in range(n)]
                j = r2.randrange(n)
                ctxs[j] = (ctxs[j][0], ctxs[j][1], [])
                data, mut = W.associate_rq(called="ANY-SCP", contexts=ctxs), "no-transfer-syntax"
            elif cls == "b":
                data, mut = mutate(r2, data)
                if mut == "none":
                    cls = "a"
            probes.append({"cls": cls, "kind": kind, "mut": mut, "hex": data.hex()})
    t = rng.choice([0.05, 0.1])
    # after its last probe the peer waits for the provider's reaction ("drain") or ends the connection at once,
    # orderly or with a reset - for a truncated probe that is a connection ending part-way through a PDU
    end = rng.choice(["drain", "drain", "close", "reset"])
    return {"state": state, "probes": probes, "t": t, "end": end, "sched": C.gen_sched(rng, fine_pct=10), "net": C.gen_net(rng)}


def shrink(sc):
    import copy

    for i in range(len(sc["probes"])):
        if len(sc["probes"]) > 1:
            d = copy.deepcopy(sc)
            del d["probes"][i]
            yield d
    if sc.get("end", "drain") == "reset":
        d = copy.deepcopy(sc)
        d["end"] = "close"
        yield d
    if sc["net"] != {"seg": "whole"}:
        d = copy.deepcopy(sc)
        d["net"] = {"seg": "whole"}
        yield d
    if sc["sched"].get("line_gap") or sc["sched"].get("sleep_jitter_pct"):
        d = copy.deepcopy(sc)
        d["sched"] = {"switch_pct": sc["sched"].get("switch_pct", 30)}
        yield d


def execute(sc, ctx):
    from pynetdicom import evt
    from pynetdicom.sop_class import Verification

    sim = ctx.sim
    t = sc["t"]
    unstable = ctx.obs["unstable"] = []

    def on_pdu_recv(event):
        p = event.pdu
        try:
            b = p.encode()
            q = type(p)()
            q.decode(b)
            if not (q == p) or q.encode() != b:
                # does repeated decode/encode converge (e.g. one padding NUL of a UID stripped per round) or not?
                cause = "diverges"
                cur = q
                for _ in range(6):
                    nb = cur.encode()
                    nxt = type(p)()
                    nxt.decode(nb)
                    if nxt == cur and nxt.encode() == nb:
                        cause = "converges-after-restripping-uid-padding" if b"\x00\x00" in b else "converges"
                        break
                    cur = nxt
                unstable.append("%s:%s" % (type(p).__name__, cause))
                sim.record("unstable_pdu", pdu=type(p).__name__, cause=cause)
        except Exception as e:  # noqa: BLE001
            unstable.append("%s:%s" % (type(p).__name__, type(e).__name__))
            sim.record("unstable_pdu", pdu=type(p).__name__, exc=repr(e)[:120])

    def _finish(p):
        end = sc.get("end", "drain")
        if end == "drain":
            ctx.obs["peer_end"] = p.drain(4 * t + 0.2)
            p.close()
        elif end == "close":
            p.close()
        else:
            p.reset()

    hh = [(evt.EVT_PDU_RECV, on_pdu_recv)]
    state = sc["state"]
    if state == "sta5":
        p = RawPeer(ctx)
        p.listen(11113)

        def peer():
            if p.accept(timeout=2.0) is None:
                return
            got = p.recv_pdu(1.0)
            for i, pr in enumerate(sc["probes"]):
                sim.record("probe", i=i, cls=pr["cls"], what=pr["kind"], n=len(pr["hex"]) // 2)
                p.send(bytes.fromhex(pr["hex"]))
            _finish(p)

        pt = ctx.spawn(peer, "peer")
        ae = ctx.make_ae("SCU", acse=t, dimse=t, network=2 * t)
        ae.add_requested_context(Verification)
        ae.add_requested_context(C.CT)
        ae.add_requested_context(C.PR_FIND)
        assoc = ctx.associate(ae, port=11113, handlers=hh)
        ctx.obs["established"] = assoc.is_established
        if assoc.is_established:
            assoc.release()
        pt.join()
        p.lsock.close()
    else:
        ae = ctx.make_ae("ANY-SCP", acse=t, dimse=t, network=2 * t)
        ae.add_supported_context(Verification)
        ae.add_supported_context(C.CT, [C.IVLE, C.EVLE])
        ae.add_supported_context(C.PR_FIND)
        if state == "sta13":
            ae.require_called_aet = True
        ctx.start_server(ae, handlers=hh)
        p = RawPeer(ctx)
        p.connect()
        if state == "sta6":
            ac = p.associate(R.CONTEXTS, timeout=1.0)
            ctx.obs["prefix_ok"] = isinstance(ac, dict)
        elif state == "sta13":
            # rejected (called AE title mismatch): the provider is in Sta13 when the probe, sent back-to-back, arrives
            first = W.associate_rq(called="WRONG", contexts=R.CONTEXTS)
            p.send(first + bytes.fromhex(sc["probes"][0]["hex"]))
        for i, pr in enumerate(sc["probes"]):
            if state == "sta13" and i == 0:
                sim.record("probe", i=i, cls=pr["cls"], what=pr["kind"], n=len(pr["hex"]) // 2)
                continue
            sim.record("probe", i=i, cls=pr["cls"], what=pr["kind"], n=len(pr["hex"]) // 2)
            p.send(bytes.fromhex(pr["hex"]))
        _finish(p)
    ctx.wait_until(lambda: bool(ctx.assocs), 0.2, step=0.001)
    ctx.obs["scripts_done_t"] = sim.now
    ctx.wait_until(lambda: not any(a.is_alive() or a.dul.is_alive() for a in ctx.assocs.values()), 10 * t + 1.0, step=0.005)


def check(sc, r):
    out, dead = L.thread_deaths(ID, r)
    kinds = "+".join("%s-%s" % (p["cls"], p.get("mut", p["kind"]) if p["cls"] == "b" else p["kind"]) for p in sc["probes"])
    if r.failure:
        roles = sorted(set((t.get("role") or "?").split(":")[0] for t in (r.failure_info or []))) if r.failure == "stuck" else []
        out.append(C.v("no-hang", "C02/run-%s/%s/%s" % (r.failure, sc["state"], "+".join(roles)), "run ended %s after probes %s: %s" % (r.failure, kinds, r.failure_info)))
        return out
    if r.obs.get("unstable"):
        out.append(C.v("stable-decode", "C02/unstable-pdu/%s" % r.obs["unstable"][0].replace(":", "/"), "decoded PDU does not re-encode/re-decode to an equal value: %s (probes %s)" % (r.obs["unstable"], kinds)))
    lab = "req0" if sc["state"] == "sta5" else "acc0"
    st = r.final.get(lab)
    if st and "error" not in st and lab not in dead:
        if st.get("alive") or st.get("dul_alive"):
            out.append(C.v("no-hang", "C02/thread-left/%s" % sc["state"], "threads still alive at the end: %s" % st))
    # "reacts per the state machine": whatever was received, the provider ends idle (Sta1) with the transport
    # connection closed - not stopped dead by an internal error handler with the state machine by-passed
    out += L.check_back_to_idle(ID, r, dead)
    # a conformant probe that is the first probe must not be classified as invalid (Evt19) in the state where it is delivered
    pr = sc["probes"][0]
    if pr["cls"] == "a" and len(sc["probes"]) == 1 and sc["state"] in ("sta2", "sta6", "sta5"):
        ev = r.evts(lab)
        data = bytes.fromhex(pr["hex"])
        pdus, rest = W.frame(data)
        recv = [h.get("data") for h in ev if h["evt"] == "EVT_DATA_RECV"]
        for t, payload, off in pdus:
            raw = W.pdu(t, payload)
            if raw in recv:
                # delivered to the decoder: an EVT_PDU_RECV must follow it (decode succeeded) rather than Evt19
                # delivered to the decoder: the next PDU-class event the state machine sees tells how it was classified
                # (EVT_PDU_RECV itself is not reliable here: a logging handler bound before ours may raise first)
                idx = max(i for i, h in enumerate(ev) if h["evt"] == "EVT_DATA_RECV" and h.get("data") == raw)
                pdu_evts = ("Evt3", "Evt4", "Evt6", "Evt10", "Evt12", "Evt13", "Evt16", "Evt19")
                nxt = next((h for h in ev[idx + 1:] if h["evt"] == "EVT_FSM_TRANSITION" and h["fsm_event"] in pdu_evts), None)
                if nxt is not None and nxt["fsm_event"] == "Evt19":
                    out.append(C.v("accept-conformant", "C02/conformant-pdu-rejected/%s/%s" % (sc["state"], pr["kind"]),
                                   "a conformant %s PDU (%d bytes) was classified as invalid (Evt19)" % (pr["kind"], len(raw))))
                    break
    return out


def nontrivial(sc, r):
    if any(p["cls"] != "a" for p in sc["probes"]) or len(sc["probes"]) > 1:
        return (sc["state"], tuple(p["hex"] for p in sc["probes"]))
    return None


def probes(sc, r):
    d = {"state_" + sc["state"]: True, "end_" + sc.get("end", "drain"): True}
    d["ended_inside_truncated_probe"] = sc.get("end", "drain") != "drain" and sc["probes"][-1].get("mut") == "truncate"
    for p in sc["probes"]:
        d["class_" + p["cls"]] = True
        if p["cls"] == "b":
            d["mut_" + p["mut"]] = True
    lab = "req0" if sc["state"] == "sta5" else "acc0"
    ev = r.evts(lab)
    d["evt19_seen"] = any(h["evt"] == "EVT_FSM_TRANSITION" and h["fsm_event"] == "Evt19" for h in ev)
    d["pdus_decoded"] = len([1 for h in ev if h["evt"] == "EVT_PDU_RECV"])
    return d


def sample(sc, r):
    lab = "req0" if sc["state"] == "sta5" else "acc0"
    ev = r.evts(lab)
    return {"state": sc["state"], "probes": [{k: (v if k != "hex" else v[:80] + ("..." if len(v) > 80 else "")) for k, v in p.items()} for p in sc["probes"]],
            "fsm": ["%s+%s" % (h["state"], h["fsm_event"]) for h in ev if h["evt"] == "EVT_FSM_TRANSITION"], "final": r.final.get(lab)}
