"""Association negotiation engine (C11, C12): two real AEs negotiate seeded
requested/supported presentation contexts, roles and user-information items
through the real A-ASSOCIATE-RQ/AC encoding over the simulated wire."""
from props import common as C
from ref import wire as W

ABSTRACTS = [C.VERIFICATION, C.CT, C.MR, C.SC, C.PR_FIND, C.PR_GET, C.PR_MOVE, C.MWL_FIND, C.PRINTER,
             "1.2.826.0.1.3680043.9.3811.1.1", ("1.2.826.0.1.3680043.9.3811." + "7" * 64)[:64]]
TSYNTAX = [C.IVLE, C.EVLE, C.EVBE, C.DEFL, "1.2.840.10008.1.2.4.50", "1.2.840.10008.1.2.5"]


def gen(rng, big_pct=6):
    n_ab = rng.randrange(1, len(ABSTRACTS) + 1)
    pool = rng.sample(ABSTRACTS, n_ab)
    nreq = rng.randrange(1, 9)
    if rng.randrange(100) < big_pct:
        nreq = rng.choice([64, 127, 128])
    req = []
    for _ in range(nreq):
        ab = rng.choice(pool)
        # (an empty transfer syntax list is something the context API accepts)
        req.append([ab, rng.sample(TSYNTAX, rng.randrange(1, 5)) if rng.randrange(25) else []])
    sup = []
    for ab in rng.sample(ABSTRACTS, rng.randrange(1, len(ABSTRACTS) + 1)):
        roles = rng.choice([(None, None), (None, None), (True, True), (True, False), (False, True), (False, False)])
        sup.append([ab, rng.sample(TSYNTAX, rng.randrange(1, 5)), roles[0], roles[1]])
    roles = []
    for ab in sorted(set(a for a, _ in req)):
        if rng.randrange(3) == 0:
            # (False, False) is accepted by build_role() but refused when the request is encoded: not a configuration
            # the API accepts
            roles.append([ab] + list(rng.choice([(True, False), (False, True), (True, True)])))
    sc = {
        "req": req, "sup": sup, "roles": roles,
        "unrestricted": rng.randrange(8) == 0,
        "req_title": rng.choice(["SCU", "A", "ABCDEFGHIJKLMNOP", "My SCU", "scu_1"]),
        "acc_title": rng.choice(["SCP", "B", "PONMLKJIHGFEDCBA", "The SCP"]),
        "req_max_pdu": rng.choice([0, 7, 128, 16382, 65536, 2 ** 32 - 1]),
        "acc_max_pdu": rng.choice([0, 7, 128, 16382, 65536, 2 ** 32 - 1]),
        "impl_uid": rng.choice([None, "1.2.3", "1.2.826.0.1.3680043.9.3811." + "9" * 36]),
        "impl_version": rng.choice([None, "V", "PYNETDICOM_310", "ABCDEFGHIJKLMNOP", ""]),
        "ext": rng.sample(["async", "user_id", "sop_ext", "sop_common"], rng.randrange(0, 3)),
        "seg": rng.choice(["whole", "random", "dribble"]),
        # how the requested contexts reach associate(): configured on the AE, passed as the `contexts` argument (fresh
        # objects), the same context object listed twice, or - after a first association - a fresh context plus the
        # context objects (carrying IDs) that the first association reported as accepted / requested
        "via": rng.choice(["ae", "ae", "ae", "arg", "arg_dup", "arg_reuse", "arg_reuse_requested"]),
    }
    return sc


def execute(sc, ctx):
    from pydicom.uid import UID
    from pynetdicom import evt, build_role, _config
    from pynetdicom.pdu_primitives import (AsynchronousOperationsWindowNegotiation, UserIdentityNegotiation,
                                           SOPClassExtendedNegotiation, SOPClassCommonExtendedNegotiation)

    sim = ctx.sim
    cap = ctx.obs
    old_unres = _config.UNRESTRICTED_STORAGE_SERVICE
    _config.UNRESTRICTED_STORAGE_SERVICE = bool(sc["unrestricted"])
    try:
        scp = ctx.make_ae(sc["acc_title"], acse=1.0, dimse=1.0, network=2.0, max_pdu=sc["acc_max_pdu"])
        skipped = []
        for ab, tss, scu, scpr in sc["sup"]:
            try:
                scp.add_supported_context(ab, tss, scu_role=scu, scp_role=scpr)
            except Exception as e:  # noqa: BLE001 - configuration refused by the API
                skipped.append((ab, repr(e)[:60]))
        cap["sup_skipped"] = skipped

        def snap(assoc):
            return {"accepted": [(cx.context_id, str(cx.abstract_syntax), str(cx.transfer_syntax[0]) if cx.transfer_syntax else None, cx.as_scu, cx.as_scp) for cx in assoc.accepted_contexts],
                    "rejected": [(cx.context_id, str(cx.abstract_syntax), cx.result) for cx in assoc.rejected_contexts]}

        def on_est(event):
            if event.assoc.is_acceptor:
                cap["acc"] = snap(event.assoc)

        try:
            ctx.start_server(scp, handlers=[(evt.EVT_ESTABLISHED, on_est)])
        except ValueError as e:  # no supported context survived the API's validation: not a case
            cap["associate_refused"] = repr(e)[:120]
            return
        scu = ctx.make_ae(sc["req_title"], acse=1.0, dimse=1.0, network=2.0, max_pdu=sc["req_max_pdu"])
        if sc["impl_uid"]:
            scu.implementation_class_uid = UID(sc["impl_uid"])
        if sc["impl_version"] is not None:
            try:
                scu.implementation_version_name = sc["impl_version"] or None
            except Exception as e:  # noqa: BLE001
                cap["impl_version_refused"] = repr(e)[:60]
        for ab, tss in sc["req"]:
            try:
                scu.add_requested_context(ab, tss)
            except Exception as e:  # noqa: BLE001
                cap.setdefault("req_refused", []).append(repr(e)[:60])
        ext = [build_role(ab, scu_role=a, scp_role=b) for ab, a, b in sc["roles"]]
        if "async" in sc["ext"]:
            it = AsynchronousOperationsWindowNegotiation()
            it.maximum_number_operations_invoked = 3
            it.maximum_number_operations_performed = 2
            ext.append(it)
        if "user_id" in sc["ext"]:
            it = UserIdentityNegotiation()
            it.user_identity_type = 2
            it.primary_field = b"user"
            it.secondary_field = b"password"
            ext.append(it)
        if "sop_ext" in sc["ext"]:
            it = SOPClassExtendedNegotiation()
            it.sop_class_uid = sc["req"][0][0]
            it.service_class_application_information = b"\x01\x00\x01"
            ext.append(it)
        if "sop_common" in sc["ext"]:
            it = SOPClassCommonExtendedNegotiation()
            it.sop_class_uid = sc["req"][0][0]
            it.service_class_uid = "1.2.840.10008.4.2"
            it.related_general_sop_class_identification = ["1.2.840.10008.5.1.4.1.1.88.22"]
            ext.append(it)
        cap["n_requested"] = len(scu.requested_contexts)
        via = sc.get("via", "ae")
        kw = {}
        try:
            if via != "ae" and scu.requested_contexts:
                from pynetdicom import build_context

                fresh = [build_context(ab, tss) for ab, tss in sc["req"]][:128]
                if via == "arg":
                    kw["contexts"] = fresh
                elif via == "arg_dup":
                    kw["contexts"] = (fresh + [fresh[0]])[:128]
                else:
                    first = ctx.associate(scu, ae_title=sc["acc_title"], ext_neg=list(ext))
                    cap["first_established"] = first.is_established
                    old = list(first.accepted_contexts) if via == "arg_reuse" else list(first.requestor.requested_contexts)
                    if first.is_established:
                        first.release()
                    kw["contexts"] = ([build_context(ABSTRACTS[0], [TSYNTAX[0]])] + old + fresh[:1])[:128]
            assoc = ctx.associate(scu, ae_title=sc["acc_title"], ext_neg=ext, **kw)
        except Exception as e:  # noqa: BLE001 - request refused by the API (e.g. > 128 contexts)
            cap["associate_refused"] = repr(e)[:120]
            return
        cap["established"] = assoc.is_established
        cap["req_state"] = ctx.assoc_state(assoc)
        if assoc.is_established:
            cap["req"] = snap(assoc)
            cap["proposed"] = [(cx.context_id, str(cx.abstract_syntax), [str(t) for t in cx.transfer_syntax]) for cx in assoc.requestor.requested_contexts]
            assoc.release()
        ctx.wait_until(lambda: not any(a.is_alive() or a.dul.is_alive() for a in ctx.assocs.values()), 3.0, step=0.005)
    finally:
        _config.UNRESTRICTED_STORAGE_SERVICE = old_unres


def wire_rq_ac(r, cid=None):
    """The A-ASSOCIATE-RQ / -AC of a connection (default: the last one - the association under test)."""
    if cid is None:
        cid = max([w["conn"] for w in r.wire] or [0])
    c2s, _ = C.conn_pdus(r, cid, "c2s")
    s2c, _ = C.conn_pdus(r, cid, "s2c")
    rq = next((p for p in c2s if p["type"] == 1), None)
    ac = next((p for p in s2c if p["type"] == 2), None)
    return rq, ac
