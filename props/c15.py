"""C15 - DIMSE fragmentation respects the peer's maximum length and reassembles exactly."""
import os
import tempfile

from dsim.rawpeer import RawPeer
from props import common as C
from props import lifecycle as L
from props import rawlife as R
from ref import wire as W

ID = "C15"
LEVEL = "exploration"
TECHNIQUE = "deterministic simulation of two real AEs (and a scripted sender regrouping PDVs) with seeded maximum PDU lengths and data-set sizes around fragment boundaries, in-memory and file-backed; independent wire reader checks every P-DATA-TF against the maximum the peer announced on the same wire and the reassembled bytes at the receiving handler"
RULE = (
    "a case = C-STORE (and C-FIND) messages between two real AEs whose maximum PDU lengths are drawn from "
    "{0,7,8,9,16,64,128,1024,16382,65536,2^32-1} independently per side, with data sets whose encoded length sits on, one "
    "below and one above multiples of the fragment size, sent from memory or from a file (chunked send), received in memory or "
    "to a file (chunked receive); or the same message written by a scripted peer with its PDVs regrouped arbitrarily (several "
    "PDVs per PDU, one byte per PDV); checked: every P-DATA-TF pynetdicom writes has a PDV list no longer than the maximum the "
    "*peer* announced, command fragments precede data fragments, only the last fragment of each part is marked last, and the "
    "receiving handler sees exactly the original data-set bytes; non-trivial = the message needed more than one fragment or the "
    "two sides announced different maxima; distinct = distinct (sender max, receiver max, size, mode) tuples (inputs dominate)"
    " Directed cells enumerate exact encoded data-set lengths around the peer's maximum and its fragment size and the configurations in which one side announces 0 (unlimited) and the other a finite maximum."
)
STUBS = ["scripted RawPeer (sender) in the regrouping cases"]
MAXES = [0, 7, 8, 9, 16, 64, 128, 135, 1024, 16382, 16383, 65536, 2 ** 32 - 1]


def budget(tier):
    if tier == "thorough":
        return {"runs": 8000, "wall": 2400, "selftest": 24, "shrink_s": 40}
    return {"runs": 360, "wall": 300, "selftest": 12, "shrink_s": 20}


def directed(tier):
    """Exact encoded data-set lengths around the peer's maximum, its fragment size (maximum - 6) and their multiples,
    and the asymmetric configurations in which one side announces 0 (= unlimited) and the other a finite maximum."""
    out = []
    for rmax in (128, 1024, 16382) if tier == "thorough" else (128, 16382):
        f = rmax - 6
        lens = sorted(set(x for base in (f, rmax, 2 * f, 2 * rmax) for x in range(base - 8, base + 9, 2) if x > 110))
        for ln in lens:
            out.append({"kind": "real", "scu_max": 16382, "scp_max": rmax, "pad": 0, "exact_len": ln, "chunked_send": False,
                        "chunked_recv": False, "find": False, "sched": {"switch_pct": 20}, "net": {"seg": "whole"}})
    for smax, rmax in ((0, 128), (0, 1024), (0, 16382), (128, 0), (16382, 0), (0, 0), (1024, 128), (128, 1024)):
        for ln in (120, 2000, 40000):
            out.append({"kind": "real", "scu_max": smax, "scp_max": rmax, "pad": 0, "exact_len": ln, "chunked_send": False,
                        "chunked_recv": False, "find": True, "sched": {"switch_pct": 20}, "net": {"seg": "whole"}})
    return out


def gen(rng, idx, tier):
    if idx % 4 == 3:
        return {"kind": "raw", "acc_max": rng.choice(MAXES), "n": rng.choice([0, 1, 10, 57, 300]),
                "group": rng.choice(["one_byte", "all_in_one", "random", "cmd_and_data_together"]), "gseed": rng.randrange(1000),
                "empty_last": rng.randrange(4) == 0,
                "chunked_recv": rng.randrange(3) == 0, "sched": {"switch_pct": 20}, "net": C.gen_net(rng)}
    smax = rng.choice(MAXES)
    rmax = rng.choice(MAXES)
    frag = (rmax - 6) if rmax else 500
    frag = max(frag, 1)
    k = rng.choice([0, 1, 2, 3])
    target = max(0, k * frag + rng.choice([-2, -1, 0, 1, 2]))
    if frag > 3000:
        target = rng.choice([0, 100, 2000, 20000])
    if frag <= 3 and target > 400:
        target = 400
    net = C.gen_net(rng)
    if target > 1500 and net.get("seg") == "dribble":
        net = {"seg": "random"}      # a byte-by-byte dribble of a large data set would outlast the DIMSE timeout
    return {"kind": "real", "scu_max": smax, "scp_max": rmax, "pad": target, "chunked_send": rng.randrange(4) == 0,
            "chunked_recv": rng.randrange(4) == 0, "find": rng.randrange(3) == 0,
            "sched": {"switch_pct": rng.choice([5, 30])}, "net": net}


def shrink(sc):
    if sc["net"] != {"seg": "whole"}:
        d = dict(sc)
        d["net"] = {"seg": "whole"}
        yield d
    if sc.get("pad", 0) > 0:
        d = dict(sc)
        d["pad"] = sc["pad"] // 2
        yield d


def execute(sc, ctx):
    from pynetdicom import evt, _config
    from pynetdicom.dsutils import encode

    sim = ctx.sim
    got = ctx.obs["received"] = []
    old = (_config.STORE_RECV_CHUNKED_DATASET, _config.STORE_SEND_CHUNKED_DATASET)
    _config.STORE_RECV_CHUNKED_DATASET = bool(sc.get("chunked_recv"))
    _config.STORE_SEND_CHUNKED_DATASET = bool(sc.get("chunked_send"))
    tmpdir = tempfile.mkdtemp(prefix="dsim-c15-")
    try:
        def on_store(event):
            if _config.STORE_RECV_CHUNKED_DATASET:
                with open(event.dataset_path, "rb") as f:
                    raw = f.read()
                got.append({"mode": "file", "raw_len": len(raw), "raw": raw})
            else:
                got.append({"mode": "memory", "raw": event.request.DataSet.getvalue()})
            sim.record("handler", op="store")
            return 0x0000

        def on_find(event):
            got.append({"mode": "find", "raw": event.request.Identifier.getvalue()})
            sim.record("handler", op="find")
            yield 0xFF00, C.small_ds(1)

        if sc["kind"] == "raw":
            scp = ctx.make_ae("ANY-SCP", acse=1.0, dimse=1.0, network=2.0, max_pdu=sc["acc_max"])
            scp.add_supported_context(C.CT, [C.IVLE])
            ctx.start_server(scp, handlers=[(evt.EVT_C_STORE, on_store)])
            p = RawPeer(ctx)
            ac = p.associate([(3, C.CT, [C.IVLE])], timeout=1.0, max_len=0)
            ctx.obs["ac"] = isinstance(ac, dict)
            if not isinstance(ac, dict):
                return
            ds = R.store_ds_bytes(sc["n"])
            ctx.obs["sent_ds"] = ds
            cmd = W.rq("C-STORE-RQ", 1, C.CT, True, extra={W.T_AFFECTED_INSTANCE: "1.2.3.4.5"})
            import random

            rng = random.Random(sc["gseed"])
            # cut command and data set into PDVs, then group PDVs into PDUs
            def cut(blob, is_cmd):
                g = sc["group"]
                if g == "one_byte":
                    parts = [blob[i:i + 1] for i in range(len(blob))]
                elif g == "random":
                    parts, i = [], 0
                    while i < len(blob):
                        n = rng.randrange(1, 40)
                        parts.append(blob[i:i + n])
                        i += n
                else:
                    parts = [blob]
                if sc.get("empty_last") and not is_cmd and blob:
                    parts = parts + [b""]     # the data set ends with an empty fragment marked "last" (legal)
                return [(3, is_cmd, j == len(parts) - 1, x) for j, x in enumerate(parts)]
            pdvs = cut(cmd, True) + cut(ds, False)
            if sc["group"] in ("all_in_one", "cmd_and_data_together"):
                groups = [pdvs]
            elif sc["group"] == "one_byte":
                groups = [pdvs[i:i + 7] for i in range(0, len(pdvs), 7)]
            else:
                groups, i = [], 0
                while i < len(pdvs):
                    n = rng.randrange(1, 5)
                    groups.append(pdvs[i:i + n])
                    i += n
            for g in groups:
                p.send(W.pdata(g))
            rsp = p.recv_until((4, 7), 1.0)
            ctx.obs["rsp"] = rsp if isinstance(rsp, str) else rsp[0]
            p.send(W.release_rq())
            p.recv_until((6, 7), 0.5)
            p.close()
        else:
            scp = ctx.make_ae("SCP", acse=1.0, dimse=1.0, network=2.0, max_pdu=sc["scp_max"])
            scp.add_supported_context(C.CT, [C.IVLE])
            scp.add_supported_context(C.PR_FIND, [C.IVLE])
            ctx.start_server(scp, handlers=[(evt.EVT_C_STORE, on_store), (evt.EVT_C_FIND, on_find)])
            scu = ctx.make_ae("SCU", acse=1.0, dimse=1.0, network=2.0, max_pdu=sc["scu_max"])
            scu.add_requested_context(C.CT, [C.IVLE])
            scu.add_requested_context(C.PR_FIND, [C.IVLE])
            assoc = ctx.associate(scu)
            ctx.obs["established"] = assoc.is_established
            if not assoc.is_established:
                return
            pad = sc["pad"]
            if sc.get("exact_len") is not None:
                # choose the padding so that the encoded data set is exactly `exact_len` bytes long (an even number
                # at least 10 above the unpadded length: element header 8 bytes + an even value length)
                l0 = len(encode(C.store_ds(0, extra_bytes=0), True, True))
                pad = sc["exact_len"] - l0 - 8
                if pad < 2 or pad % 2:
                    ctx.obs["skipped"] = "exact length %d not reachable (base %d)" % (sc["exact_len"], l0)
                    pad = max(2, pad + pad % 2)
            ds = C.store_ds(0, extra_bytes=pad)
            ctx.obs["sent_ds"] = encode(ds, True, True)
            if sc["chunked_send"]:
                path = os.path.join(tmpdir, "in.dcm")
                _save(ds, path)
                st = assoc.send_c_store(path)
            else:
                st = assoc.send_c_store(ds)
            ctx.obs["status"] = st.Status if st is not None and "Status" in st else "empty"
            if sc["find"] and assoc.is_established:
                ident = C.small_ds(0)
                ident.PatientComments = "y" * sc["pad"]
                ctx.obs["sent_find"] = encode(ident, True, True)
                ctx.obs["find_status"] = [s.Status if s and "Status" in s else "empty" for s, _ in assoc.send_c_find(ident, C.PR_FIND)]
            if assoc.is_established:
                assoc.release()
        ctx.wait_until(lambda: not any(a.is_alive() or a.dul.is_alive() for a in ctx.assocs.values()), 3.0, step=0.005)
    finally:
        _config.STORE_RECV_CHUNKED_DATASET, _config.STORE_SEND_CHUNKED_DATASET = old
        import shutil

        shutil.rmtree(tmpdir, ignore_errors=True)


def _save(ds, path):
    from pydicom.dataset import FileMetaDataset
    from pydicom.uid import ImplicitVRLittleEndian

    ds.file_meta = FileMetaDataset()
    ds.file_meta.TransferSyntaxUID = ImplicitVRLittleEndian
    ds.file_meta.MediaStorageSOPClassUID = ds.SOPClassUID
    ds.file_meta.MediaStorageSOPInstanceUID = ds.SOPInstanceUID
    ds.save_as(path, enforce_file_format=True)


def _strip_meta(raw):
    """Data-set bytes of a DICOM file (skip preamble + group 0002)."""
    import struct

    if len(raw) > 132 and raw[128:132] == b"DICM":
        off = 132
        # (0002,0000) UL group length, explicit VR LE
        g, e, vr, ln = struct.unpack("<HH2sH", raw[off:off + 8])
        if (g, e) == (2, 0) and ln == 4:
            glen = struct.unpack("<L", raw[off + 8:off + 12])[0]
            return raw[off + 12 + glen:]
    return raw


def check(sc, r):
    out, dead = L.thread_deaths(ID, r)
    if r.failure:
        out.append(C.v("liveness", "C15/run-%s" % r.failure, "run ended %s" % r.failure))
        return out
    if sc["kind"] == "real" and not r.obs.get("established"):
        return out
    if sc["kind"] == "raw" and not r.obs.get("ac"):
        return out
    c2s, _ = C.conn_pdus(r, 0, "c2s")
    s2c, _ = C.conn_pdus(r, 0, "s2c")
    rq = next((p for p in c2s if p["type"] == 1), None)
    ac = next((p for p in s2c if p["type"] == 2), None)
    if rq is None or ac is None:
        return out
    max_of_acceptor = W.max_length(W.parse_associate(ac["payload"]))
    max_of_requestor = W.max_length(W.parse_associate(rq["payload"]))
    # every P-DATA-TF written by a real pynetdicom side must respect the *peer's* maximum
    sides = [("acceptor", s2c, max_of_requestor)]
    if sc["kind"] == "real":
        sides.append(("requestor", c2s, max_of_acceptor))
    for who, pdus, peer_max in sides:
        for p in pdus:
            if p["type"] == 4 and peer_max and len(p["payload"]) > peer_max:
                own = max_of_acceptor if who == "acceptor" else max_of_requestor
                kind = "used-own-maximum" if own and len(p["payload"]) <= own else "exceeds"
                out.append(C.v("max-length", "C15/pdv-list-exceeds-peer-maximum/%s/%s" % (who, kind),
                               "%s wrote a P-DATA-TF with a %d byte PDV list, the peer announced a maximum of %d (own maximum %s)" % (who, len(p["payload"]), peer_max, own)))
                break
        msgs, problems = W.messages(C.as_frames(pdus))
        for pr in problems:
            out.append(C.v("fragment-order", "C15/fragment-structure/%s" % who, pr))
            break
        for p in pdus:
            if p["type"] != 4:
                continue
            pv = W.parse_pdata(p["payload"])
            if not pv:
                out.append(C.v("fragment-order", "C15/empty-pdata/%s" % who, "P-DATA-TF without PDVs"))
    # reassembly at the receiving handler
    recv = r.obs.get("received", [])
    stores = [x for x in recv if x["mode"] in ("memory", "file")]
    sent = r.obs.get("sent_ds")
    ok_status = (sc["kind"] == "real" and r.obs.get("status") == 0) or (sc["kind"] == "raw" and r.obs.get("rsp") == 4)
    if sent is not None and ok_status:
        if not stores:
            out.append(C.v("reassembly", "C15/store-not-delivered/%s" % sc["kind"], "the C-STORE was answered but the handler recorded no data set"))
        else:
            raw = stores[0]["raw"]
            if stores[0]["mode"] == "file":
                raw = _strip_meta(raw)
            if raw != sent:
                out.append(C.v("reassembly", "C15/reassembled-dataset-differs/%s/%s" % (sc["kind"], stores[0]["mode"]),
                               "handler saw %d data-set bytes, %d were sent (first difference at %s)" % (len(raw), len(sent), next((i for i in range(min(len(raw), len(sent))) if raw[i] != sent[i]), min(len(raw), len(sent))))))
    elif sent is not None and not ok_status and not (sc["kind"] == "real" and sc["scu_max"] and sc["scu_max"] < 7):
        out.append(C.v("reassembly", "C15/store-failed/%s" % sc["kind"], "C-STORE did not succeed: status %s / response %s" % (r.obs.get("status"), r.obs.get("rsp"))))
    if r.obs.get("sent_find") is not None:
        f = [x for x in recv if x["mode"] == "find"]
        if f and f[0]["raw"] != r.obs["sent_find"]:
            out.append(C.v("reassembly", "C15/reassembled-identifier-differs", "C-FIND identifier differs after reassembly"))
    return out


def nontrivial(sc, r):
    c2s, _ = C.conn_pdus(r, 0, "c2s")
    npd = len([p for p in c2s if p["type"] == 4])
    if sc["kind"] == "raw":
        return ("raw", sc["acc_max"], sc["n"], sc["group"], sc["gseed"], sc["chunked_recv"], sc.get("empty_last")) if npd > 1 or sc["group"] != "all_in_one" else None
    if npd > 2 or sc["scu_max"] != sc["scp_max"]:
        return ("real", sc["scu_max"], sc["scp_max"], sc["pad"], sc.get("exact_len"), sc["chunked_send"], sc["chunked_recv"], sc["find"])
    return None


def probes(sc, r):
    c2s, _ = C.conn_pdus(r, 0, "c2s")
    d = {"kind_" + sc["kind"]: True, "pdata_pdus_c2s": len([p for p in c2s if p["type"] == 4])}
    if sc["kind"] == "real":
        d["chunked_send"] = bool(sc["chunked_send"])
        d["unlimited_peer"] = sc["scp_max"] == 0
        d["different_maxima"] = sc["scu_max"] != sc["scp_max"]
    d["chunked_recv"] = bool(sc.get("chunked_recv"))
    return d


def sample(sc, r):
    c2s, _ = C.conn_pdus(r, 0, "c2s")
    sizes = [len(p["payload"]) for p in c2s if p["type"] == 4]
    return {"scenario": {k: v for k, v in sc.items() if k not in ("sched", "net")}, "pdata_payload_sizes": sizes[:12],
            "n_pdata": len(sizes), "sent_len": len(r.obs.get("sent_ds") or b""), "status": r.obs.get("status", r.obs.get("rsp"))}
