"""C12 - association requests and responses pynetdicom sends are structurally conformant."""
from dsim.rawpeer import RawPeer
from props import assoc_wire as AW
from props import common as C
from props import lifecycle as L
from props import negot as N
from ref import wire as W

ID = "C12"
LEVEL = "exploration"
TECHNIQUE = "deterministic simulation: real AEs (and a scripted requestor with unusual but legal proposals) exchange A-ASSOCIATE-RQ/AC over the simulated wire; an independent PS3.8 item reader checks every A-ASSOCIATE PDU pynetdicom wrote"
RULE = (
    "a case = one negotiation in which pynetdicom writes an A-ASSOCIATE-RQ (real requestor: 1-128 contexts, limit-length AE "
    "titles and UIDs, max PDU 0/7/128/16382/65536/2^32-1, implementation UID/version, role, async, user-identity, SOP class "
    "(common) extended items) and/or an A-ASSOCIATE-AC (real acceptor answering a real requestor or a scripted requestor "
    "proposing legal but unusual context IDs such as 255, 1, 3 in any order and up to 128 contexts); checked with the "
    "independent reader: exact lengths, item counts, distinct odd IDs 1-255, one abstract and >=1 transfer syntax per context, "
    "one application context, one user-information item with one max-length and one implementation-class-UID, one result per "
    "proposed context, accepted results carry one proposed transfer syntax, titles/UIDs legal and not all spaces; non-trivial = "
    "the configuration uses at least one limit value or optional item; distinct = distinct configurations (inputs dominate)"
    " The requested contexts reach associate() via the AE's configuration, as the contexts argument, with the same context object listed twice, or mixed with context objects (carrying IDs) taken from an earlier association; a context may have an empty transfer syntax list (must be refused by the API)."
)
STUBS = ["scripted RawPeer (requestor) in one third of the cases"]


def budget(tier):
    if tier == "thorough":
        return {"runs": 12000, "wall": 2400, "selftest": 24, "shrink_s": 40}
    return {"runs": 520, "wall": 300, "selftest": 12, "shrink_s": 20}


def gen(rng, idx, tier):
    if idx % 3 == 2:
        n = rng.choice([1, 2, 3, 5, 17, 128])
        ids = rng.sample(range(1, 256, 2), n)
        if rng.randrange(2):
            ids.sort(reverse=rng.randrange(2) == 0)
        ctxs = [[i, rng.choice(N.ABSTRACTS), rng.sample(N.TSYNTAX, rng.randrange(1, 4))] for i in ids]
        sup = [[ab, rng.sample(N.TSYNTAX, rng.randrange(1, 5)), None, None] for ab in rng.sample(N.ABSTRACTS, rng.randrange(1, len(N.ABSTRACTS) + 1))]
        return {"kind": "raw", "ctxs": ctxs, "sup": sup, "acc_title": rng.choice(["SCP", "ABCDEFGHIJKLMNOP", "x y"]),
                "calling": rng.choice(["RAW", "ABCDEFGHIJKLMNOP", "  lead", "trail  "]), "acc_max_pdu": rng.choice([0, 7, 16382, 2 ** 32 - 1]),
                "peer_max": rng.choice([0, 1, 16382, 2 ** 32 - 1]), "roles": [[c[1], rng.randrange(2), rng.randrange(2)] for c in ctxs[:3] if rng.randrange(3) == 0],
                "sched": {"switch_pct": 20}, "net": {"seg": rng.choice(["whole", "random"])}}
    sc = N.gen(rng, big_pct=10)
    sc["kind"] = "real"
    sc["sched"] = {"switch_pct": rng.choice([5, 30])}
    sc["net"] = {"seg": sc["seg"] if sc["seg"] != "dribble" else "random"}
    return sc


def shrink(sc):
    import copy

    if sc["kind"] == "raw":
        for i in range(len(sc["ctxs"])):
            if len(sc["ctxs"]) > 1:
                d = copy.deepcopy(sc)
                del d["ctxs"][i]
                yield d
        return
    for k in ("req", "sup", "roles"):
        for i in range(len(sc[k])):
            if k == "req" and len(sc["req"]) == 1:
                continue
            d = copy.deepcopy(sc)
            del d[k][i]
            yield d
    if sc["ext"]:
        d = copy.deepcopy(sc)
        d["ext"] = []
        yield d


def execute(sc, ctx):
    if sc["kind"] == "real":
        return N.execute(sc, ctx)
    scp = ctx.make_ae(sc["acc_title"], acse=0.5, dimse=0.5, network=1.0, max_pdu=sc["acc_max_pdu"])
    for ab, tss, a, b in sc["sup"]:
        scp.add_supported_context(ab, tss)
    ctx.start_server(scp)
    p = RawPeer(ctx)
    extra = [W.role_item(ab, a, b) for ab, a, b in sc["roles"]]
    ac = p.associate([(i, ab, tss) for i, ab, tss in sc["ctxs"]], timeout=1.0, called=sc["acc_title"], calling=sc["calling"],
                     max_len=sc["peer_max"], extra_user=extra)
    ctx.obs["answer"] = "ac" if isinstance(ac, dict) else repr(ac)[:40]
    if isinstance(ac, dict):
        p.send(W.release_rq())
        p.recv_until((6, 7), 0.5)
    p.close()
    ctx.wait_until(lambda: not any(a.is_alive() or a.dul.is_alive() for a in ctx.assocs.values()), 2.0, step=0.005)


def check(sc, r):
    out, dead = L.thread_deaths(ID, r)
    if r.failure:
        out.append(C.v("liveness", "C12/run-%s" % r.failure, "run ended %s" % r.failure))
        return out
    rq, ac = N.wire_rq_ac(r)
    if sc["kind"] == "real":
        for cid in sorted(set(w["conn"] for w in r.wire)):
            rq_i, ac_i = N.wire_rq_ac(r, cid)
            if rq_i is not None:
                out += AW.check_rq(ID, rq_i["payload"])
            if ac_i is not None and rq_i is not None:
                out += AW.check_ac(ID, ac_i["payload"], rq_i["payload"])
        # what the requestor configured must be what is on the wire
        if rq is not None and r.obs.get("proposed"):
            d = W.parse_associate(rq["payload"])
            want = [(i, ab.encode(), [t.encode() for t in ts]) for i, ab, ts in r.obs["proposed"]]
            got = [(p["id"], p["abstract"][0] if p["abstract"] else None, p["transfer"]) for p in d["pcs"]]
            if want != got:
                out.append(C.v("contexts", "C12/rq/contexts-differ-from-configuration", "requested contexts on the wire differ from the association's requested contexts"))
    else:
        if ac is not None and rq is not None:
            out += AW.check_ac(ID, ac["payload"], rq["payload"])
        if ac is None and rq is not None:
            s2c, _ = C.conn_pdus(r, 0, "s2c")
            if not any(p["type"] in (3, 7) for p in s2c):
                out.append(C.v("answer", "C12/ac/no-answer", "legal A-ASSOCIATE-RQ got no A-ASSOCIATE-AC/RJ/A-ABORT"))
            elif any(p["type"] == 7 for p in s2c) and not any(p["type"] in (2, 3) for p in s2c):
                out.append(C.v("answer", "C12/ac/legal-request-aborted", "a legal A-ASSOCIATE-RQ (ids %s) was answered with A-ABORT" % [c[0] for c in sc["ctxs"]][:10]))
    return out


def nontrivial(sc, r):
    if sc["kind"] == "raw":
        return ("raw", repr(sc["ctxs"]), sc["calling"], sc["peer_max"])
    lim = len(sc["req"]) > 60 or sc["ext"] or sc["roles"] or sc["req_max_pdu"] in (0, 7, 2 ** 32 - 1) or len(sc["req_title"]) == 16 or (sc["impl_uid"] and len(sc["impl_uid"]) > 60)
    if lim:
        return ("real", repr(sc["req"]), repr(sc["ext"]), sc["req_max_pdu"], sc["req_title"], sc["impl_uid"], sc["impl_version"])
    return None


def probes(sc, r):
    rq, ac = N.wire_rq_ac(r)
    d = {"kind_" + sc["kind"]: True, "rq_on_wire": rq is not None, "ac_on_wire": ac is not None}
    if rq is not None:
        d["rq_bytes_max"] = 0
        d["contexts_128"] = len(W.parse_associate(rq["payload"])["pcs"]) == 128
    return d


def sample(sc, r):
    rq, ac = N.wire_rq_ac(r)
    out = {"kind": sc["kind"]}
    if rq is not None:
        d = W.parse_associate(rq["payload"])
        out["rq"] = {"called": d["called"].decode("latin1"), "calling": d["calling"].decode("latin1"), "contexts": len(d["pcs"]),
                     "user_items": [hex(t) for t, _ in W.user_items(d)], "max_length": W.max_length(d)}
    if ac is not None:
        d = W.parse_associate(ac["payload"])
        out["ac"] = {"results": [(p["id"], p["result"]) for p in d["results"]][:10], "user_items": [hex(t) for t, _ in W.user_items(d)], "max_length": W.max_length(d)}
    return out
