"""C21 - handler results map to response status and data as documented."""
from props import c20 as C20
from props import common as C
from props import lifecycle as L
from props import scp as S
from ref import wire as W

ID = "C21"
LEVEL = "exploration"
TECHNIQUE = "deterministic simulation of two real AEs with seeded handler return values; reference mapping (documented status tables and pynetdicom-specific failure codes) applied to the responses read from the wire and to the datasets the requestor receives"
RULE = (
    "a case = one DIMSE request to a real SCP whose handler returns/yields a seeded value: int status (known, unknown, out of "
    "range), status dataset with Status and optional status elements, dataset without Status, None, str, exception, datasets "
    "to be returned; checked: the Status on the wire is the handler's when it is an int or a dataset with Status (optional "
    "elements copied), otherwise the documented failure code of the service (0xC001 no Status, 0xC002 invalid type, "
    "0xC211/0xC311/0xC411/0xC511 handler exception, 0x0110 for DIMSE-N); response datasets reach the requestor equal to the "
    "handler's; non-trivial = the supplied status is not a plain known int; distinct = distinct (operation, status kind, "
    "dataset kind) (inputs dominate)"
    " Integer statuses are also supplied as IntEnum members; on the wire a non-Pending C-FIND response must not carry a data set."
)
ASSUMPTIONS = ["inputs dominate; schedules add nothing to this property"]

EXC_CODE = {"store": 0xC211, "find": 0xC311, "get": 0xC411, "move": 0xC511}
NO_STATUS = 0xC001
BAD_TYPE = 0xC002


def budget(tier):
    if tier == "thorough":
        return {"runs": 12000, "wall": 2400, "selftest": 32, "shrink_s": 40}
    return {"runs": 560, "wall": 300, "selftest": 12, "shrink_s": 20}


def gen(rng, idx, tier):
    op = S.OPS[idx % len(S.OPS)]
    if op in ("echo", "store", "n_delete"):
        beh = {"ret": S.gen_status_spec(rng, op if op != "n_delete" else "n")}
    elif op in S.N_PAIR_OPS:
        beh = {"ret": S.gen_status_spec(rng, "n"), "ds": rng.choice(["ds", "ds", "none"]), "shape": "pair"}
    else:
        # one Pending with a dataset (checked for equality at the requestor) then a seeded final status
        items = [{"status": {"t": "int", "v": 0xFF00}, "ds": "ds"}] if op == "find" else []
        spec = S.gen_status_spec(rng, op)
        items.append({"status": spec, "ds": "none"})
        beh = {"mode": "gen", "items": items}
        if op in ("get", "move"):
            beh["count"] = 1
            beh["store"] = ["ok", "ok"]
        if op == "move":
            beh["dest"] = "ok"
    return {"op": op, "beh": beh, "msg_id": rng.choice([0, 1, 9, 300]), "max_pdu": rng.choice([0, 128, 16382]),
            "sched": {"switch_pct": rng.choice([5, 30])}, "net": C.gen_net(rng)}


shrink = C20.shrink
execute = S.execute


def _spec(sc):
    b = sc["beh"]
    if "ret" in b:
        return b["ret"]
    return b["items"][-1]["status"]


def expected_status(sc):
    """(set of acceptable Status values, expect comment, expect offending) or None when not judged."""
    op = sc["op"]
    sp = _spec(sc)
    t = sp["t"]
    if t in ("int", "ds") and op in S.GEN_OPS and sp["v"] in (0xFF00, 0xFF01):
        return None       # a Pending status is not a final status: pynetdicom adds its own final response
    if t == "int":
        v = sp["v"]
        if not (0 <= v <= 0xFFFF):
            return None   # not representable in a US element: outside the documented mapping
        return {v}, None, None
    if t == "ds":
        # OffendingElement is a status element of the DIMSE-C responses only
        return {sp["v"]}, sp.get("comment"), sp.get("offending") if op in ("store", "find", "get", "move") else None
    if op == "echo":
        return None       # documented: C-ECHO answers Success whatever the handler does wrong
    if op.startswith("n_"):
        if t == "raise":
            return {0x0110}, None, None
        if t == "ds_nostatus":
            return {NO_STATUS}, None, None
        return {BAD_TYPE}, None, None
    if t == "raise":
        return {EXC_CODE[op]}, None, None
    if t == "ds_nostatus":
        return {NO_STATUS}, None, None
    return {BAD_TYPE}, None, None


def check(sc, r):
    out, dead = L.thread_deaths(ID, r)
    if r.failure:
        out.append(C.v("liveness", "C21/run-%s" % r.failure, "run ended %s" % r.failure))
        return out
    if not r.obs.get("established"):
        return out
    rq, rsps, ends, s2c, _ = S.request_and_responses(sc, r)
    if rq is None or not rsps:
        return out            # missing responses are C20's business
    op = sc["op"]
    infos = [S.rsp_info(m, s2c) for m in rsps]
    exp = expected_status(sc)
    sp = _spec(sc)
    last = infos[-1]
    if exp is not None:
        want, comment, offending = exp
        # a Pending status given as the *final* item of a generator is followed by pynetdicom's own final response
        cands = [x for x in infos]
        got = [x["status"] for x in cands]
        hit = [x for x in cands if x["status"] in want]
        if not hit:
            out.append(C.v("status", "C21/status-mapping/%s/%s" % (op, sp["t"]),
                           "handler supplied %s; responses on the wire carry %s, documented mapping expects %s" % (sp, [hex(g) if g is not None else None for g in got], [hex(w) for w in want])))
        else:
            x = hit[-1]
            if comment and (x["comment"] or b"").rstrip(b" \x00").decode("ascii", "replace") != comment:
                out.append(C.v("status-elements", "C21/optional-element-lost/%s/ErrorComment" % op, "ErrorComment %r from the handler's status dataset arrived as %r" % (comment, x["comment"])))
            if offending and not x["offending"]:
                out.append(C.v("status-elements", "C21/optional-element-lost/%s/OffendingElement" % op, "OffendingElement from the handler's status dataset is missing in the response"))
    # a C-FIND response carries an Identifier only when it is a Pending response: the handler's results for every
    # other status have no dataset (documented), so nothing - in particular not the previous match - may follow them
    if op == "find":
        for x in infos:
            if x["status"] is not None and not S.is_pending(x["status"]) and x["ds_len"]:
                out.append(C.v("dataset", "C21/non-pending-response-with-dataset/find/0x%04x" % x["status"],
                               "C-FIND response with status 0x%04X carries a %d byte data set" % (x["status"], x["ds_len"])))
                break
    # datasets the handler supplied must reach the requestor unchanged
    ys = r.obs.get("yielded") or []
    if op == "find" and sc["beh"].get("items") and sc["beh"]["items"][0]["ds"] == "ds":
        want_ds = S._dsrepr(C.small_ds(0))
        pend = [y for y in ys if isinstance(y[0], dict) and y[0].get("Status") in (0xFF00, 0xFF01)]
        if pend and pend[0][1] != want_ds:
            out.append(C.v("dataset", "C21/response-dataset-changed/find", "Identifier yielded by the handler %s arrived as %s" % (want_ds, pend[0][1])))
    if op in ("n_get", "n_set", "n_create", "n_action", "n_event_report") and sc["beh"]["ds"] == "ds" and exp is not None:
        st = ys[0][0] if ys else None
        if isinstance(st, dict) and st.get("Status") in (0x0000,) and sp["t"] in ("int", "ds"):
            want_ds = S._dsrepr(C.small_ds(0))
            if ys[0][1] != want_ds:
                out.append(C.v("dataset", "C21/response-dataset-changed/%s" % op, "dataset returned by the handler %s arrived as %s" % (want_ds, ys[0][1])))
    return out


def nontrivial(sc, r):
    sp = _spec(sc)
    if not (sp["t"] == "int" and sp["v"] in (0, 0xFF00)):
        return (sc["op"], sp["t"], sp.get("v"), bool(sp.get("comment")), bool(sp.get("offending")), sc["beh"].get("ds"))
    return None


def probes(sc, r):
    sp = _spec(sc)
    return {"op_" + sc["op"]: True, "status_kind_" + sp["t"]: True, "judged": expected_status(sc) is not None}


def sample(sc, r):
    if not r.obs.get("established") or r.failure:
        return {"scenario": sc}
    rq, rsps, ends, s2c, _ = S.request_and_responses(sc, r)
    return {"op": sc["op"], "handler_status": _spec(sc), "expected": [hex(x) for x in (expected_status(sc) or [[]])[0]],
            "wire_status": [hex(S.rsp_info(m, s2c)["status"] or 0) for m in rsps], "requestor_got": r.obs.get("yielded")}
