"""C04 - the state machine reacts to every state/event pair as PS3.8 prescribes."""
from dsim.rawpeer import RawPeer
from props import common as C
from props import lifecycle as L
from props import rawlife as R
from ref import fsm as F
from ref import wire as W

ID = "C04"
LEVEL = "fault_enumeration"
TECHNIQUE = "deterministic simulation, one directed scenario per (state, event) cell of PS3.8 Table 9-10: the real provider is driven to the state by a real prefix (scripted peer, user calls, thread stalls to hold transient states), the event is produced the way it really arises (peer PDU, local primitive, close, timer) or injected where no real execution can produce it; lock-step comparison with an independent transcription of Tables 9-6..9-10"
RULE = (
    "a case = one of the 13 x 19 = 247 (state, event) pairs, in the role(s) that can be in that state (both roles for Sta6-Sta8 "
    "and for AR-8; AE-6 with the protocol version accepted and refused), executed as a simulated scenario; checked against the "
    "reference table: action name and next state, PDU written during the action (type; source for A-ABORT; result/source/reason "
    "for the AE-6 rejection), primitive issued to the user, ARTIM start/stop/restart, transport closed or not; for a blank cell: "
    "the event is refused (not processed as any action), nothing is written and the state does not change; every case is "
    "non-trivial; distinct = distinct (state, event, role, variant); the thorough tier repeats each cell under 3 schedules"
)
STUBS = ["scripted RawPeer", "events injected into the provider's event queue for cells no real execution can reach (marked 'injected' in the evidence)"]
EXHAUSTIVE = {"thorough": True, "quick": True}
ASSUMPTIONS = [
    "side effects on the provider's to_user_queue and ARTIM timer are observed through recording wrappers installed on those objects when the connection opens",
    "a blank cell counts as refused when the provider raises InvalidEventError for it or discards the request without any action",
]

PDU_EVENTS = {"Evt3": "ac", "Evt4": "rj", "Evt6": "rq", "Evt10": "echo_rq", "Evt12": "release_rq", "Evt13": "release_rp",
              "Evt16": "abort", "Evt19": "unknown"}
PRIM_EVENTS = ("Evt1", "Evt7", "Evt8", "Evt9", "Evt11", "Evt14", "Evt15")
ROLE_OF = {"Sta1": ["requestor"], "Sta2": ["acceptor"], "Sta3": ["acceptor"], "Sta4": ["requestor"], "Sta5": ["requestor"],
           "Sta6": ["acceptor", "requestor"], "Sta7": ["acceptor", "requestor"], "Sta8": ["acceptor", "requestor"],
           "Sta9": ["requestor"], "Sta10": ["acceptor"], "Sta11": ["requestor"], "Sta12": ["acceptor"], "Sta13": ["acceptor"]}


def cells():
    out = []
    for s in F.STATES:
        for e in F.EVENTS:
            roles = ROLE_OF[s]
            if (s, e) == ("Sta1", "Evt5"):
                roles = ["acceptor"]     # a transport connection indication only exists on the accepting side
            for role in roles:
                variants = [""]
                if (s, e) == ("Sta2", "Evt6"):
                    variants = ["version-ok", "version-bad"]
                for v in variants:
                    out.append({"state": s, "event": e, "role": role, "variant": v})
    return out


def directed(tier):
    out = []
    reps = 3 if tier == "thorough" else 1
    for c in cells():
        for k in range(reps):
            d = dict(c)
            d["sched"] = {"switch_pct": [20, 50, 5][k]}
            d["net"] = {"seg": "whole"}
            out.append(d)
    return out


def budget(tier):
    return {"runs": 0, "wall": 900, "selftest": 16, "shrink_s": 10}


def gen(rng, idx, tier):
    c = rng.choice(cells())
    d = dict(c)
    d["sched"] = C.gen_sched(rng, fine_pct=0)
    d["net"] = {"seg": "whole"}
    return d


def _primitive(event):
    from pynetdicom.pdu_primitives import A_ASSOCIATE, A_RELEASE, A_ABORT, P_DATA
    from pydicom.uid import UID

    if event in ("Evt1", "Evt7", "Evt8"):
        p = A_ASSOCIATE()
        p.application_context_name = UID("1.2.840.10008.3.1.1.1")
        p.calling_ae_title = "INJECTED"
        p.called_ae_title = "ANY-SCP"
        if event == "Evt7":
            p.result = 0
            p.result_source = 1
        elif event == "Evt8":
            p.result = 1
            p.result_source = 1
            p.diagnostic = 1
        return p
    if event == "Evt9":
        p = P_DATA()
        p.presentation_data_value_list = [[1, b"\x03" + W.rq("C-ECHO-RQ", 9, C.VERIFICATION)]]
        return p
    if event == "Evt11":
        return A_RELEASE()
    if event == "Evt14":
        p = A_RELEASE()
        p.result = "affirmative"
        return p
    p = A_ABORT()
    p.abort_source = 0
    return p


def _pdu_object(event):
    """A decoded pynetdicom PDU object for injection into _recv_pdu (Sta1/Sta4 only)."""
    from pynetdicom import pdu as P

    cls = {"Evt3": P.A_ASSOCIATE_AC, "Evt4": P.A_ASSOCIATE_RJ, "Evt6": P.A_ASSOCIATE_RQ, "Evt10": P.P_DATA_TF,
           "Evt12": P.A_RELEASE_RQ, "Evt13": P.A_RELEASE_RP, "Evt16": P.A_ABORT_RQ}[event]
    o = cls()
    o.decode(R.build({"pdu": PDU_EVENTS[event]}))
    return o


class Probe:
    """Installs recording wrappers on one provider and produces the event under test."""

    def __init__(self, ctx, sc):
        self.ctx = ctx
        self.sim = ctx.sim
        self.sc = sc
        self.fired = False
        self.target = None   # the Association under test

    def instrument(self, assoc):
        sim = self.sim
        dul = assoc.dul
        if getattr(dul, "_c04", False):
            return
        dul._c04 = True
        q = dul.to_user_queue
        orig_put = q.put

        def put(item, *a, **k):
            sim.record("to_user", prim=type(item).__name__, result=getattr(item, "result", None))
            return orig_put(item, *a, **k)

        q.put = put
        tm = dul.artim_timer
        ops = {"n": 0}
        for name in ("start", "stop", "restart"):
            def mk(name=name, orig=getattr(tm, name)):
                def f():
                    sim.record("artim", op=name)
                    ops["n"] += 1
                    res = orig()
                    if name != "stop" and tm.timeout:
                        # a timer that was (re)started and then left alone for its whole period must report expiry
                        def probe(n=ops["n"], t0=sim.now):
                            if ops["n"] == n:
                                sim.record("artim_probe", op=name, started_t=t0, expired=bool(tm.expired))
                        self.artim_due = sim.now + tm.timeout * 1.02 + 0.001
                        sim.at(self.artim_due, probe)
                    return res
                return f
            setattr(tm, name, mk())

    def produce(self, assoc, in_thread):
        """Produce the event under test on `assoc`'s provider (once)."""
        if self.fired:
            return
        self.fired = True
        sc, sim, dul = self.sc, self.sim, assoc.dul
        e = sc["event"]
        sim.record("probe", event=e, state=dul.state_machine.current_state, how=self.how())
        how = self.how()
        if how == "primitive":
            prim = _primitive(e)
            if sc["state"] == "Sta4":
                dul.to_provider_queue.queue.appendleft(prim)   # ahead of the T_CONNECT confirmation
            else:
                dul.send_pdu(prim)
        elif how == "inject-pdu":
            dul._recv_pdu.put(_pdu_object(e))
            dul.event_queue.put(e)
        elif how == "inject":
            dul.event_queue.put(e)
        elif how == "tconnect":
            from pynetdicom.transport import T_CONNECT

            t = T_CONNECT(_primitive("Evt1"))
            t.result = "Evt2"
            if sc["state"] == "Sta4":
                return   # the real confirmation is already queued
            dul.to_provider_queue.put(t)
        # "peer" / "close" / "timer" productions are performed by the scripted peer

    def how(self):
        s, e = self.sc["state"], self.sc["event"]
        if e in PRIM_EVENTS:
            return "primitive"
        if e == "Evt2":
            return "tconnect"
        if e == "Evt5":
            return "inject" if s != "Sta1" else "real-connection"
        if e == "Evt18":
            return "timer" if s == "Sta2" else "inject"
        if e == "Evt17":
            return "inject" if s in ("Sta1", "Sta4") else "close"
        if e in PDU_EVENTS:
            if s in ("Sta1", "Sta4"):
                return "inject-pdu" if e != "Evt19" else "inject"
            return "peer"
        return "inject"


def execute(sc, ctx):
    from pynetdicom import evt
    from pynetdicom.sop_class import Verification

    sim = ctx.sim
    S, E, role = sc["state"], sc["event"], sc["role"]
    pr = Probe(ctx, sc)
    hold = 0.25      # how long transient states are held
    big = 1.5        # timeouts that must not interfere
    peer_probe = pr.how() in ("peer", "close")
    shared = {}

    def probe_bytes():
        if E == "Evt19":
            return W.pdu(0x0B, b"\x00\x00\x00\x00")
        if E == "Evt6" and sc.get("variant") == "version-bad":
            return R.build({"pdu": "rq", "version": 2})
        return R.build({"pdu": PDU_EVENTS[E]})

    def real_label():
        return "acc0" if role == "acceptor" else "req0"

    def on_transition(event):
        a = event.assoc
        if ctx.label(a) != real_label():
            return
        pr.instrument(a)
        if event.next_state != S or pr.fired:
            return
        # entered the state under test
        sim.record("entered", state=S)
        if S in ("Sta8",):
            t = ctx.task_by_role("assoc:" + ctx.label(a))
            if t is not None:
                sim.stall(t, hold)
        if S in ("Sta9", "Sta12"):
            t = ctx.task_by_role("user:rel")
            if t is not None:
                sim.stall(t, hold)
        if S == "Sta13" and peer_probe and E != "Evt17" and shared.get("peer") is not None:
            # Sta13 lasts one reactor iteration unless data is already waiting: let the peer's probe arrive now,
            # while the provider is still inside the action that leads to Sta13
            pr.fired = True
            sim.record("probe", event=E, state="Sta13", how="peer")
            shared["peer"].send(probe_bytes())
            ctx.sleep(0.001)
        if not peer_probe and pr.how() not in ("timer", "real-connection") and S not in ("Sta2", "Sta5", "Sta6", "Sta7", "Sta10", "Sta11") and S != "Sta3":
            pr.produce(a, in_thread=True)

    def on_open(event):
        if ctx.label(event.assoc) == real_label():
            pr.instrument(event.assoc)

    def on_requested(event):
        if S == "Sta3" and event.assoc.is_acceptor and E not in ("Evt7", "Evt8"):
            # hold Sta3: the association thread is busy in this handler while the event is produced
            if not peer_probe:
                pr.produce(event.assoc, in_thread=False)
            ctx.sleep(hold)

    hh = [(evt.EVT_FSM_TRANSITION, on_transition), (evt.EVT_CONN_OPEN, on_open), (evt.EVT_REQUESTED, on_requested),
          (evt.EVT_C_ECHO, lambda e: 0)]

    # ------------------------------------------------------------------ Sta1: a provider that has not been asked anything
    if S == "Sta1" and E != "Evt5":
        from pynetdicom.association import Association
        from pynetdicom.transport import AssociationSocket, AddressInformation

        ae = ctx.make_ae("SCU", acse=big, dimse=big, network=big)
        ae.add_requested_context(Verification)
        assoc = Association(ae, "requestor")
        for e_, h_ in ctx.rec_handlers() + hh:
            assoc.bind(e_, h_)
        sock = AssociationSocket(assoc, address=AddressInformation("", 0))
        assoc.set_socket(sock)
        assoc.acceptor.ae_title = "ANY-SCP"
        assoc.acceptor.address_info = AddressInformation("127.0.0.1", 11113)
        assoc.requestor.ae_title = "SCU"
        assoc.requestor.address_info = AddressInformation("", 0)
        lab = ctx.label(assoc)
        pr.instrument(assoc)
        if E == "Evt1":
            p = RawPeer(ctx)
            p.listen(11113)
            prim = _primitive("Evt1")
            prim.called_presentation_address = AddressInformation("127.0.0.1", 11113)
            prim.calling_presentation_address = AddressInformation("", 0)
            from pynetdicom.presentation import build_context
            cx = build_context(Verification)
            cx.context_id = 1
            prim.presentation_context_definition_list = [cx]
            from pynetdicom.pdu_primitives import MaximumLengthNotification, ImplementationClassUIDNotification
            from pydicom.uid import UID
            m = MaximumLengthNotification()
            m.maximum_length_received = 16382
            im = ImplementationClassUIDNotification()
            im.implementation_class_uid = UID("1.2.3")
            prim.user_information = [m, im]
            assoc.dul.start()
            sim.record("probe", event=E, state="Sta1", how="primitive")
            assoc.dul.send_pdu(prim)
            p.accept(timeout=0.5)
            got = p.recv_pdu(0.5)
            ctx.obs["peer_got"] = got if isinstance(got, str) else got[0]
            p.close()
        else:
            assoc.dul.start()
            ctx.sleep(0.005)
            pr.produce(assoc, in_thread=False)
        ctx.sleep(0.05)
        assoc.dul.kill_dul()
        ctx.sleep(0.01)
        return

    # ------------------------------------------------------------------ acceptor under test
    if role == "acceptor":
        ae = ctx.make_ae("ANY-SCP", acse=(0.1 if (S == "Sta2" and E == "Evt18") else big), dimse=big, network=big)
        ae.add_supported_context(Verification)
        if S == "Sta13" or (S == "Sta3" and E == "Evt8"):
            ae.require_called_aet = True
        ctx.start_server(ae, handlers=hh)
        p = RawPeer(ctx)
        p.connect()
        rq = R.build({"pdu": "rq", "contexts": [(1, C.VERIFICATION, [C.IVLE])]})
        rq_wrong = R.build({"pdu": "rq", "called": "WRONG", "contexts": [(1, C.VERIFICATION, [C.IVLE])]})

        def acc_assoc():
            ctx.wait_until(lambda: "acc0" in ctx.assocs, 0.5)
            return ctx.assocs.get("acc0")

        def user_release():
            a = acc_assoc()
            ctx.wait_until(lambda: a.is_established, 0.5)
            a.release()

        if S == "Sta1":       # Sta1 + Evt5: the connection itself
            ctx.sleep(0.02)
        elif S == "Sta2":
            ctx.wait_until(lambda: acc_assoc() is not None and acc_assoc().dul.state_machine.current_state == "Sta2", 0.5)
            a = acc_assoc()
            if peer_probe:
                sim.record("probe", event=E, state="Sta2", how=pr.how())
                if E == "Evt17":
                    p.close()
                else:
                    p.send(probe_bytes())
            elif pr.how() == "timer":
                sim.record("probe", event=E, state="Sta2", how="timer")
                ctx.sleep(0.2)
            else:
                pr.produce(a, in_thread=False)
        elif S == "Sta3":
            p.send(rq_wrong if E == "Evt8" else rq)
            if E in ("Evt7", "Evt8"):
                sim.record("probe", event=E, state="Sta3", how="primitive")   # produced by pynetdicom's own ACSE
            elif peer_probe:
                ctx.wait_until(lambda: acc_assoc() is not None and acc_assoc().dul.state_machine.current_state == "Sta3", 0.5)
                sim.record("probe", event=E, state="Sta3", how=pr.how())
                if E == "Evt17":
                    p.close()
                else:
                    p.send(probe_bytes())
        elif S in ("Sta6", "Sta7", "Sta8", "Sta10", "Sta12"):
            p.send(rq)
            ac = p.recv_pdu(1.0)
            a = acc_assoc()
            if S == "Sta6":
                ctx.wait_until(lambda: a.dul.state_machine.current_state == "Sta6", 0.5)
            if S in ("Sta7", "Sta10", "Sta12"):
                th = ctx.spawn(user_release, "user:rel")
                ctx.wait_until(lambda: a.dul.state_machine.current_state == "Sta7", 0.5)
                p.recv_until((5,), 0.5)
            if S in ("Sta10", "Sta12"):
                p.send(W.release_rq())        # collision: acceptor side -> Sta10
                ctx.wait_until(lambda: a.dul.state_machine.current_state == "Sta10", 0.5)
            if S == "Sta12":
                p.send(W.release_rp())        # -> AR-10 -> Sta12 (held by stalling the releasing thread)
                ctx.wait_until(lambda: a.dul.state_machine.current_state == "Sta12" or pr.fired, 0.5)
            if S == "Sta8":
                p.send(W.release_rq())        # -> AR-2 -> Sta8 (held by stalling the reactor)
                ctx.wait_until(lambda: a.dul.state_machine.current_state == "Sta8" or pr.fired, 0.5)
            if peer_probe:
                sim.record("probe", event=E, state=a.dul.state_machine.current_state, how=pr.how())
                if E == "Evt17":
                    p.close()
                else:
                    p.send(probe_bytes())
            elif S in ("Sta6", "Sta7", "Sta10"):
                pr.produce(a, in_thread=False)
        elif S == "Sta13":
            # rejected request (called AE title): the provider enters Sta13; a PDU probe must already be in the socket buffer
            if peer_probe and E != "Evt17":
                shared["peer"] = p          # the probe is written from the transition handler at entry into Sta13
                p.send(rq_wrong)
            else:
                if E == "Evt17":
                    sim.record("probe", event=E, state="Sta13", how="close")
                p.send(rq_wrong)
        ctx.obs["peer_end"] = p.drain(hold + 0.3)
        p.close()
    else:
        # ------------------------------------------------------------------ requestor under test
        p = RawPeer(ctx)
        p.listen(11113)
        ae = ctx.make_ae("SCU", acse=big, dimse=big, network=big)
        ae.add_requested_context(Verification)
        done = {}

        def user():
            assoc = ctx.associate(ae, port=11113, handlers=hh)
            done["assoc"] = assoc
            if S in ("Sta7", "Sta9", "Sta11") and assoc.is_established:
                assoc.release()

        ut = ctx.spawn(user, "user:rel")
        p.accept(timeout=1.0)
        got = p.recv_pdu(1.0)

        def req_assoc():
            return ctx.assocs.get("req0")

        a = req_assoc()
        if S == "Sta4":
            pass     # produced from the transition handler at entry into Sta4
        elif S == "Sta5":
            ctx.wait_until(lambda: req_assoc() is not None and req_assoc().dul.state_machine.current_state == "Sta5", 0.5)
            a = req_assoc()
            if peer_probe:
                sim.record("probe", event=E, state="Sta5", how=pr.how())
                if E == "Evt17":
                    p.close()
                else:
                    p.send(probe_bytes())
            else:
                pr.produce(a, in_thread=False)
        else:
            p.send(W.associate_ac(results=[(1, 0, C.IVLE)]))
            a = req_assoc()
            if S == "Sta6":
                ctx.wait_until(lambda: a.dul.state_machine.current_state == "Sta6" and a.is_established, 0.5)
                ctx.sleep(0.005)
            if S in ("Sta7", "Sta9", "Sta11"):
                p.recv_until((5,), 0.8)
                ctx.wait_until(lambda: a.dul.state_machine.current_state == "Sta7", 0.5)
            if S in ("Sta9", "Sta11"):
                p.send(W.release_rq())     # collision, requestor side -> Sta9 (held by stalling the releasing thread)
                ctx.wait_until(lambda: a.dul.state_machine.current_state in ("Sta9",) or pr.fired, 0.5)
            if S == "Sta11":
                ctx.wait_until(lambda: a.dul.state_machine.current_state == "Sta11", 0.5)
                p.recv_until((6,), 0.5)
            if S == "Sta8":
                # the association reactor must be running so that it can be stalled at entry into Sta8
                ctx.wait_until(lambda: ctx.task_by_role("assoc:req0") is not None and a.is_established, 0.5)
                ctx.sleep(0.003)
                p.send(W.release_rq())
                ctx.wait_until(lambda: a.dul.state_machine.current_state == "Sta8" or pr.fired, 0.5)
            if peer_probe:
                sim.record("probe", event=E, state=a.dul.state_machine.current_state, how=pr.how())
                if E == "Evt17":
                    p.close()
                else:
                    p.send(probe_bytes())
            elif S in ("Sta6", "Sta7", "Sta11"):
                pr.produce(a, in_thread=False)
        ctx.obs["peer_end"] = p.drain(hold + 0.3)
        p.close()
        p.lsock.close()
        ut.join()
    ctx.wait_until(lambda: not any(x.is_alive() or x.dul.is_alive() for x in ctx.assocs.values()), 2 * big + 1.0, step=0.005)
    due = getattr(pr, "artim_due", None)
    if due is not None and due >= sim.now:
        # let the period of the last (re)started ARTIM timer pass (virtual time), see instrument()
        ctx.sleep(due - sim.now + 0.002)


# ----------------------------------------------------------------------------- oracle
IND = {"assoc-ind": ("A_ASSOCIATE", (None,)), "assoc-conf-ac": ("A_ASSOCIATE", (0,)), "assoc-conf-rj": ("A_ASSOCIATE", (1, 2)),
       "release-ind": ("A_RELEASE", (None,)), "release-conf": ("A_RELEASE", ("affirmative",)),
       "abort-ind": ("A_ABORT", None), "p-abort-ind": ("A_P_ABORT", None)}


def check(sc, r):
    out = []
    S, E, role = sc["state"], sc["event"], sc["role"]
    cell = "%s+%s" % (S, E)
    lab = "acc0" if (role == "acceptor") else "req0"
    if r.failure:
        out.append(C.v("liveness", "C04/run-%s/%s" % (r.failure, cell), "run ended %s" % r.failure))
        return out
    probe = next((h for h in r.hist if h["kind"] == "probe"), None)
    exp = F.expect(S, E)
    ev = [h for h in r.hist if (h["kind"] == "evt" and h["assoc"] == lab) or h["kind"] in ("to_user", "artim", "probe", "sock_close", "thread_died")]
    if probe is None:
        if S == "Sta1" and E == "Evt5":
            probe = {"seq": -1}
        else:
            out.append(C.v("reach", "C04/state-not-reached/%s/%s" % (cell, role), "the scenario never reached %s (no probe was produced)" % S))
            return out
    after = [h for h in ev if h["seq"] >= probe["seq"]]
    trans = [h for h in after if h["kind"] == "evt" and h["evt"] == "EVT_FSM_TRANSITION"]
    mine = next((h for h in trans if h["fsm_event"] == E and h["state"] == S), None)
    died = [d for d in r.died if (d["role"] or "").endswith(lab)]
    if exp is None:
        # blank cell: must be refused, nothing done
        if mine is not None:
            out.append(C.v("blank-cell", "C04/blank-cell-processed/%s" % cell, "%s has no entry in Table 9-10 but the provider performed %s -> %s" % (cell, mine["action"], mine["next"])))
        wrong_death = [d for d in died if not (d["exc"] == "InvalidEventError" and ("'%s'" % E) in d["msg"] and ("'%s'" % S) in d["msg"])]
        for d in wrong_death:
            out.append(C.v("blank-cell", "C04/blank-cell-unexpected-error/%s/%s" % (cell, d["exc"]), "provider thread died with %s: %s" % (d["exc"], d["msg"])))
        return out
    act, nexts = exp
    if mine is None:
        got = [(h["state"], h["fsm_event"]) for h in trans][:4]
        kind = "died" if died else "not-processed"
        out.append(C.v("cell", "C04/cell-not-executed/%s/%s/%s" % (cell, role, kind), "%s was produced (%s) but no such transition was reported; transitions after the probe: %s; deaths: %s" % (cell, probe.get("how"), got, [(d["exc"], d["msg"][:80]) for d in died])))
        return out
    if mine["action"] != act:
        out.append(C.v("cell", "C04/wrong-action/%s/%s" % (cell, mine["action"]), "%s performed %s, Table 9-10 says %s" % (cell, mine["action"], act)))
    want_next = nexts
    if act == "AR-8":
        want_next = (F.ar8_next(role == "requestor"),)
    if act == "AE-6":
        want_next = ("Sta13",) if sc.get("variant") == "version-bad" else ("Sta3",)
    if mine["next"] not in want_next:
        out.append(C.v("cell", "C04/wrong-next-state/%s/%s" % (cell, mine["next"]), "%s went to %s, PS3.8 says %s" % (cell, mine["next"], want_next)))
    eff = F.EFFECTS[act]
    if act == "AE-6" and sc.get("variant") == "version-bad":
        eff = eff["alt"]
    # side effects between the previous transition and this one
    idx = ev.index(mine)
    j = idx - 1
    while j >= 0 and not (ev[j]["kind"] == "evt" and ev[j]["evt"] == "EVT_FSM_TRANSITION"):
        j -= 1
    window = [h for h in ev[j + 1:idx] if h["seq"] >= probe["seq"] or h["kind"] != "evt"]
    window = ev[j + 1:idx]
    sent = [h for h in window if h["kind"] == "evt" and h["evt"] == "EVT_PDU_SENT"]
    got_pdus = [L._PDU_CLS.get(h["pdu"]) for h in sent]
    want_pdus = [eff["pdu"]] if eff["pdu"] else []
    send_failed = bool(want_pdus and not got_pdus) and any(h["fsm_event"] == "Evt17" for h in trans if h["seq"] > mine["seq"])
    if got_pdus != want_pdus and not send_failed:
        out.append(C.v("effects", "C04/wrong-pdu/%s/%s" % (cell, "-".join(map(str, got_pdus)) or "none"), "%s (%s) sent PDU types %s, Tables 9-6..9-9 say %s" % (cell, act, got_pdus, want_pdus)))
    elif want_pdus and got_pdus:
        b = sent[0].get("bytes") or b""
        if eff.get("abort_source") is not None and len(b) >= 10:
            want_src = eff["abort_source"]
            if b[8] != want_src:
                out.append(C.v("effects", "C04/wrong-abort-source/%s/%d" % (cell, b[8]), "%s (%s) sent A-ABORT with source %d, PS3.8 says %d" % (cell, act, b[8], want_src)))
        if eff.get("rj") and len(b) >= 10 and tuple(b[7:10]) != eff["rj"]:
            out.append(C.v("effects", "C04/wrong-rj/%s/%s" % (cell, "%d%d%d" % tuple(b[7:10])), "AE-6 rejection carries %s, expected %s" % (tuple(b[7:10]), eff["rj"])))
    tu = [h for h in window if h["kind"] == "to_user"]
    if eff["ind"] in IND:
        cls, results = IND[eff["ind"]]
        ok_cls = (cls, "A_P_ABORT") if eff["ind"] == "abort-ind" else (cls,)
        hit = [h for h in tu if h["prim"] in ok_cls and (results is None or h["result"] in results)]
        if not hit:
            out.append(C.v("effects", "C04/indication-missing/%s/%s" % (cell, eff["ind"]), "%s (%s) must issue %s to the user; issued %s" % (cell, act, eff["ind"], [(h["prim"], h["result"]) for h in tu])))
    elif eff["ind"] is None and tu:
        out.append(C.v("effects", "C04/unexpected-indication/%s/%s" % (cell, tu[0]["prim"]), "%s (%s) issued %s to the user, PS3.8 lists none" % (cell, act, [(h["prim"], h["result"]) for h in tu])))
    ar = [h["op"] for h in window if h["kind"] == "artim"]
    want_ar = eff["artim"]
    if want_ar is None and ar:
        out.append(C.v("effects", "C04/unexpected-artim/%s/%s" % (cell, ar[0]), "%s (%s) touched the ARTIM timer: %s" % (cell, act, ar)))
    elif want_ar == "stop" and "stop" not in ar:
        out.append(C.v("effects", "C04/artim-not-stopped/%s" % cell, "%s (%s) must stop ARTIM; timer operations: %s" % (cell, act, ar)))
    elif want_ar in ("start", "restart") and not any(x in ("start", "restart") for x in ar):
        out.append(C.v("effects", "C04/artim-not-started/%s" % cell, "%s (%s) must (re)start ARTIM; timer operations: %s" % (cell, act, ar)))
    for h in r.hist:
        if h["kind"] == "artim_probe" and not h["expired"]:
            out.append(C.v("effects", "C04/artim-started-but-never-expires/%s" % h["op"],
                           "ARTIM timer %s()ed at t=%.4f and not touched again does not report expiry after its period (seen while judging %s)" % (h["op"], h["started_t"], cell)))
            break
    closed = any(h["kind"] == "sock_close" for h in window)
    if eff["close"] and not closed:
        out.append(C.v("effects", "C04/connection-not-closed/%s" % cell, "%s (%s) must close the transport connection" % (cell, act)))
    if not eff["close"] and closed and act not in ("AA-4", "AA-5", "AR-5"):
        out.append(C.v("effects", "C04/connection-closed/%s" % cell, "%s (%s) closed the transport connection, PS3.8 does not" % (cell, act)))
    return out


def nontrivial(sc, r):
    return (sc["state"], sc["event"], sc["role"], sc.get("variant", ""), sc["sched"].get("switch_pct"))


def probes(sc, r):
    probe = next((h for h in r.hist if h["kind"] == "probe"), None)
    d = {"defined_cell": F.defined(sc["state"], sc["event"]), "blank_cell": not F.defined(sc["state"], sc["event"])}
    if probe is not None:
        how = probe.get("how")
        d["produced_" + ("injected" if how in ("inject", "inject-pdu") else "real")] = True
    else:
        d["not_produced"] = True
    d["artim_left_alone_for_its_period_reported_expiry"] = any(h["kind"] == "artim_probe" and h["expired"] for h in r.hist)
    return d


def sample(sc, r):
    lab = "acc0" if sc["role"] == "acceptor" else "req0"
    probe = next((h for h in r.hist if h["kind"] == "probe"), None)
    tr = [(h["state"], h["fsm_event"], h["action"], h["next"]) for h in r.evts(lab, "EVT_FSM_TRANSITION")]
    return {"cell": "%s+%s" % (sc["state"], sc["event"]), "role": sc["role"], "variant": sc.get("variant"), "expected": F.expect(sc["state"], sc["event"]),
            "produced": probe and probe.get("how"), "transitions": tr[-5:], "deaths": [(d["exc"], d["msg"][:60]) for d in r.died]}
