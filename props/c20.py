"""C20 - each service request gets exactly one final response with its message ID."""
from props import common as C
from props import lifecycle as L
from props import scp as S
from ref import wire as W

ID = "C20"
LEVEL = "exploration"
TECHNIQUE = "deterministic simulation of two real AEs: seeded handler behaviours (return/yield values, exceptions at any point, wrong shapes) and peer interference (abort, C-CANCEL) for every service class; reference SCP oracle over the responses read from the wire tap"
RULE = (
    "a case = one DIMSE request (C-ECHO/STORE/FIND/GET/MOVE, N-GET/SET/ACTION/CREATE/DELETE/EVENT-REPORT) sent by a real SCU to "
    "a real SCP whose intervention handler follows a seeded behaviour: status values known/unknown/out of range, status "
    "datasets with and without Status, wrong types, wrong tuple shapes, generators of 0-4 items, lists, None, exceptions "
    "before/between/after yields, C-STORE sub-operation outcomes, optionally an abort or C-CANCEL from the requestor mid-stream; "
    "checked on the wire: Pending* then exactly one final response, all with the request's message ID and context ID, nothing "
    "after the final one, final missing only after an A-ABORT/A-RELEASE crossed the wire; non-trivial = the handler behaviour "
    "is not the plain documented one (some invalid value, exception, wrong shape or interference); distinct = distinct "
    "(operation, behaviour) descriptions"
)


def budget(tier):
    if tier == "thorough":
        return {"runs": 16000, "wall": 2400, "selftest": 32, "shrink_s": 60}
    return {"runs": 640, "wall": 300, "selftest": 12, "shrink_s": 30}


def gen(rng, idx, tier):
    op = S.OPS[idx % len(S.OPS)] if idx < 4 * len(S.OPS) else rng.choice(S.OPS)
    sc = {"op": op, "beh": S.gen_behaviour(rng, op), "msg_id": rng.choice([0, 1, 5, 77, 65535]),
          "max_pdu": rng.choice([0, 256, 16382]), "second_echo": True,
          "sched": C.gen_sched(rng, fine_pct=15), "net": C.gen_net(rng)}
    if op in S.GEN_OPS and rng.randrange(4) == 0:
        sc["interfere"] = {"kind": rng.choice(["abort", "cancel"]), "after": rng.choice([0.0, 0.001, 0.003, 0.006])}
    return sc


def shrink(sc):
    import copy

    b = sc["beh"]
    if "items" in b:
        for i in range(len(b["items"])):
            d = copy.deepcopy(sc)
            del d["beh"]["items"][i]
            yield d
    if sc.get("interfere"):
        d = copy.deepcopy(sc)
        d.pop("interfere")
        yield d
    if sc["net"] != {"seg": "whole"}:
        d = copy.deepcopy(sc)
        d["net"] = {"seg": "whole"}
        yield d
    if sc["sched"].get("line_gap") or sc["sched"].get("sleep_jitter_pct"):
        d = copy.deepcopy(sc)
        d["sched"] = {"switch_pct": sc["sched"].get("switch_pct", 30)}
        yield d
    if sc["max_pdu"] != 16382:
        d = copy.deepcopy(sc)
        d["max_pdu"] = 16382
        yield d


execute = S.execute


def beh_kind(sc):
    """Short description of the handler behaviour (for signatures and probes)."""
    b = sc["beh"]
    if "ret" in b and "shape" not in b:
        return "ret-%s" % b["ret"]["t"]
    if "shape" in b:
        return "pair-%s-%s-%s" % (b["shape"], b["ret"]["t"], b["ds"])
    parts = [b["mode"]]
    if "count" in b:
        parts.append("count-%s" % (b["count"] if not isinstance(b["count"], int) else "int"))
    if "dest" in b:
        parts.append("dest-%s" % b["dest"])
    return "+".join(parts)


def check(sc, r):
    out, dead = L.thread_deaths(ID, r)
    if r.failure:
        out.append(C.v("liveness", "C20/run-%s" % r.failure, "run ended %s" % r.failure))
        return out
    if not r.obs.get("established"):
        return out
    rq, rsps, ends, s2c, probs = S.request_and_responses(sc, r)
    if rq is None:
        return out
    op = sc["op"]
    where = "%s/%s" % (op, beh_kind(sc))
    handled = [h for h in r.hist if h["kind"] == "handler" and h["op"] == op]
    infos = [S.rsp_info(m, s2c) for m in rsps]
    # 0xB001 (Repository Query "matching reached response limit" warning) is the only tolerated non-final
    # non-Pending status: pynetdicom's own SCU also goes on reading after it
    finals = [i for i, x in enumerate(infos) if not S.is_pending(x["status"]) and not (op == "find" and x["status"] == 0xB001)]
    # only the handler or the *peer* ending the association excuses a missing final response; the handlers of these
    # scenarios never abort or release, so the excuse is an A-ABORT / A-RELEASE-RQ written by the requestor
    # (an abort that pynetdicom's SCP decides on by itself because of what the handler returned is not an excuse)
    term = next(((s, d, t) for s, d, t in ends if d == "c2s"), None)
    if not finals:
        if term is None or not sc.get("interfere"):
            self_abort = any(d == "s2c" and t == 7 for s, d, t in ends) or bool(r.evts("acc0", "EVT_ABORTED"))
            out.append(C.v("one-final", "C20/no-final-response/%s%s" % (where, "/scp-aborted" if self_abort else ""), "request %s (msg id %s) got %d pending responses and no final response although neither the handler nor the peer ended the association (SCP aborted by itself: %s)" % (rq.name, sc["msg_id"], len(infos), self_abort)))
    else:
        if len(finals) > 1:
            out.append(C.v("one-final", "C20/several-final-responses/%s" % where, "request got %d non-Pending responses: %s" % (len(finals), [hex(infos[i]["status"]) for i in finals])))
        if finals[0] != len(infos) - 1:
            out.append(C.v("one-final", "C20/response-after-final/%s" % where, "responses after the final one: statuses %s" % [hex(x["status"]) if x["status"] is not None else None for x in infos]))
    for x in infos:
        if x["ctx"] != rq.ctx:
            out.append(C.v("ids", "C20/response-on-other-context/%s" % where, "response on context %s, request on %s" % (x["ctx"], rq.ctx)))
            break
        if x["status"] is None:
            out.append(C.v("ids", "C20/response-without-status/%s" % where, "a response carries no Status"))
            break
    # responses with a foreign message id written by the SCP on this connection (other than sub-operation traffic)
    all_rs, _ = W.messages(C.as_frames(s2c))
    foreign = [m for m in all_rs if m.command and m.is_response and m.command.get(W.T_MESSAGE_ID_RSP) not in (sc["msg_id"], 2)]
    if foreign:
        out.append(C.v("ids", "C20/response-with-other-message-id/%s" % where, "SCP wrote responses to message ids %s, request id is %s" % ([m.command.get(W.T_MESSAGE_ID_RSP) for m in foreign], sc["msg_id"])))
    return out


def nontrivial(sc, r):
    b = sc["beh"]
    plain = False
    if "ret" in b and "shape" not in b:
        plain = b["ret"]["t"] == "int" and b["ret"]["v"] in (0,)
    elif "shape" in b:
        plain = b["shape"] == "pair" and b["ret"]["t"] == "int" and b["ds"] == "ds"
    else:
        plain = b["mode"] == "gen" and all("status" in it and it["status"]["t"] == "int" and it["ds"] == "ds" for it in b["items"])
    if not plain or sc.get("interfere"):
        return (sc["op"], repr(sorted(b.items(), key=str)), bool(sc.get("interfere")))
    return None


def probes(sc, r):
    rq, rsps, ends, s2c, _ = S.request_and_responses(sc, r) if r.obs.get("established") and not r.failure else (None, [], [], [], [])
    d = {"op_" + sc["op"]: True, "beh_" + beh_kind(sc): True}
    d["responses_on_wire"] = len(rsps)
    d["aborted_midstream"] = bool(ends and any(t == 7 for _, _, t in ends))
    if sc.get("interfere"):
        d["interfere_" + sc["interfere"]["kind"]] = True
    return d


def sample(sc, r):
    if not r.obs.get("established") or r.failure:
        return {"scenario": sc}
    rq, rsps, ends, s2c, _ = S.request_and_responses(sc, r)
    return {"op": sc["op"], "behaviour": sc["beh"], "interfere": sc.get("interfere"),
            "responses": [{k: v for k, v in S.rsp_info(m, s2c).items() if k != "dataset"} for m in rsps],
            "scu_saw": r.obs.get("yielded")}
