"""C09 - protocol timers measure elapsed time, unaffected by wall-clock changes."""
from dsim.rawpeer import RawPeer
from props import common as C
from ref import wire as W

ID = "C09"
LEVEL = "exploration"
TECHNIQUE = "deterministic simulation with injected wall-clock jumps: Timer op sequences against a reference timer on the virtual monotonic clock, plus live ARTIM / idle-timeout expiry measured in virtual time"
RULE = (
    "a case = either (unit) a seeded sequence of start/stop/restart/timeout-change/read operations, virtual-time advances "
    "and wall-clock jumps of either sign applied to pynetdicom's Timer inside the simulator and compared read by read "
    "with a reference timer on the monotonic virtual clock, or (system) a real acceptor left in Sta2 / Sta13 / idle-established "
    "with a wall-clock jump injected before, inside or after the timer window, whose close/abort instant must lie in "
    "[timeout, timeout+margin] of elapsed virtual time; non-trivial = at least one clock jump fired while a timer was running; "
    "distinct = distinct run digests"
)
STUBS = ["scripted RawPeer (requestor side) in the system-level cases"]
Q = 1.0 / 1024


def budget(tier):
    if tier == "thorough":
        return {"runs": 20000, "wall": 1500, "selftest": 48, "shrink_s": 60}
    return {"runs": 1200, "wall": 240, "selftest": 24, "shrink_s": 30}


def gen(rng, idx, tier):
    if idx % 4 == 3:
        return {
            "kind": "system",
            "phase": rng.choice(["sta2", "idle", "idle"]),
            "timeout": rng.choice([64, 128, 256]) * Q,
            "jump": rng.choice([-3600.0, -5.0, -0.2, 0.2, 5.0, 3600.0, 0.0]),
            "jump_at_frac": rng.choice([0.0, 0.25, 0.5, 0.9, 1.5]),
            "sched": C.gen_sched(rng, fine_pct=10), "net": {"seg": "whole"},
        }
    n = rng.randrange(3, 25)
    ops = []
    for _ in range(n):
        o = rng.choice(["start", "stop", "restart", "read", "read", "advance", "advance", "jump", "timeout"])
        d = {"op": o}
        if o == "advance":
            d["d"] = rng.choice([1, 2, 16, 100, 512, 1024, 3000]) * Q
        elif o == "jump":
            d["d"] = rng.choice([-86400.0, -3.0, -0.5, 0.5, 3.0, 86400.0])
        elif o == "timeout":
            d["v"] = rng.choice([None, 0, 1 * Q, 100 * Q, 1024 * Q, 5.0])
        ops.append(d)
    return {"kind": "unit", "timeout": rng.choice([None, 0, 10 * Q, 512 * Q, 2.0]), "ops": ops,
            "sched": {"switch_pct": 0}, "net": {"seg": "whole"}}


def shrink(sc):
    if sc["kind"] == "unit":
        for i in range(len(sc["ops"])):
            d = dict(sc)
            d["ops"] = sc["ops"][:i] + sc["ops"][i + 1:]
            yield d
    else:
        if sc["sched"] != {"switch_pct": 30}:
            d = dict(sc)
            d["sched"] = {"switch_pct": 30}
            yield d


class RefTimer:
    """Elapsed-time timer on the monotonic clock (documented semantics of
    pynetdicom.timer.Timer)."""

    def __init__(self, timeout, clock):
        self.timeout = timeout
        self.clock = clock
        self.t0 = None
        self.t1 = None

    def start(self):
        self.t0 = self.clock()
        self.t1 = None

    restart = start

    def stop(self):
        self.t1 = self.clock()

    def elapsed(self):
        if self.t0 is None:
            return None
        end = self.clock() if self.t1 is None else self.t1
        return end - self.t0

    def remaining(self):
        if self.timeout is None:
            return 1
        e = self.elapsed()
        if e is None:
            return self.timeout
        return self.timeout - e

    def expired(self):
        if self.timeout is None or self.t0 is None:
            return False
        return self.remaining() < 0


def execute(sc, ctx):
    if sc["kind"] == "unit":
        return _unit(sc, ctx)
    return _system(sc, ctx)


def _unit(sc, ctx):
    from pynetdicom.timer import Timer

    sim = ctx.sim
    t = Timer(sc["timeout"])
    ref = RefTimer(sc["timeout"], lambda: sim.now)
    reads = []
    jumps_running = 0
    for i, op in enumerate(sc["ops"]):
        o = op["op"]
        if o == "start":
            t.start()
            ref.start()
        elif o == "restart":
            t.restart()
            ref.restart()
        elif o == "stop":
            t.stop()
            ref.stop()
        elif o == "advance":
            ctx.sleep(op["d"])
        elif o == "jump":
            sim.wall_offset += op["d"]
            sim.count("fault.clock_jump")
            if ref.t0 is not None and ref.t1 is None:
                jumps_running += 1
        elif o == "timeout":
            t.timeout = op["v"]
            ref.timeout = op["v"]
        if o in ("read", "jump", "advance", "stop", "timeout"):
            reads.append({"i": i, "op": o, "expired": bool(t.expired), "remaining": t.remaining,
                          "ref_expired": ref.expired(), "ref_remaining": ref.remaining(), "timeout": ref.timeout})
    ctx.obs["reads"] = reads
    ctx.obs["jumps_running"] = jumps_running


def _system(sc, ctx):
    from pynetdicom import evt
    from pynetdicom.sop_class import Verification

    sim = ctx.sim
    T = sc["timeout"]
    phase = sc["phase"]
    big = 8.0
    scp = ctx.make_ae("SCP", acse=T if phase in ("sta2", "sta13") else big, dimse=big,
                      network=T if phase == "idle" else big)
    scp.add_supported_context(Verification)
    if phase == "sta13":
        scp.require_called_aet = True
    ctx.start_server(scp)
    p = RawPeer(ctx)
    p.connect()
    t_start = None
    if phase == "sta2":
        t_start = sim.now           # ARTIM started on connection (AE-5), within one reactor iteration
    elif phase == "sta13":
        p.send(W.associate_rq(called="WRONG", contexts=[(1, C.VERIFICATION, [C.IVLE])]))
        got = p.recv_pdu(2.0)
        ctx.obs["got"] = got if isinstance(got, str) else got[0]
        t_start = sim.now           # ARTIM started when the RJ was sent (AE-8)
    else:
        ac = p.associate([(1, C.VERIFICATION, [C.IVLE])], timeout=2.0)
        ctx.obs["got"] = "ac" if isinstance(ac, dict) else repr(ac)
        t_start = sim.now           # idle timer restarted at the last PDU activity
    ctx.obs["t_start"] = t_start
    ja = sc["jump_at_frac"] * T
    if sc["jump"]:
        def fire():
            sim.wall_offset += sc["jump"]
            sim.count("fault.clock_jump")
            sim.record("clock_jump", d=sc["jump"])
        sim.at(t_start + ja, fire)
    st = p.drain(timeout=3 * T + 2.0)
    ctx.obs["peer_saw"] = st
    ctx.obs["t_end"] = sim.now
    p.close()


def check(sc, r):
    out = C.generic_thread_death(r, ID)
    if r.failure:
        out.append(C.v("liveness", "C09/run-%s" % r.failure, "run ended %s" % r.failure))
        return out
    if sc["kind"] == "unit":
        for rd in r.obs.get("reads", []):
            rr, tr = rd["ref_remaining"], rd["remaining"]
            if abs(rr) > 1e-6 and rd["expired"] != rd["ref_expired"]:
                kind = "early" if rd["expired"] else "late"
                out.append(C.v("expired", "C09/unit/expired-%s" % kind,
                               "after op %d (%s): Timer.expired=%s but %s elapsed-time semantics say %s (remaining %.6f vs ref %.6f)" % (
                                   rd["i"], rd["op"], rd["expired"], "monotonic", rd["ref_expired"], tr, rr)))
                break
            if abs(tr - rr) > 1e-5:
                out.append(C.v("remaining", "C09/unit/remaining-differs",
                               "after op %d (%s): Timer.remaining=%.6f, reference %.6f" % (rd["i"], rd["op"], tr, rr)))
                break
        return out
    # system level: when did the local side close?
    T = sc["timeout"]
    t0 = r.obs.get("t_start")
    closes = [h for h in r.evts("acc0", "EVT_CONN_CLOSE")]
    if t0 is None:
        return out
    if not closes:
        out.append(C.v("system", "C09/system/%s/never-closed" % sc["phase"], "the acceptor never closed the connection (timeout %.3f, peer saw %s)" % (T, r.obs.get("peer_saw"))))
        return out
    # The timer under test is started by the provider, not by the scripted peer: take the start instant from the
    # provider's own history (the peer thread - or the thread that accepted the connection - may have been held up).
    # t_lo <= true start <= t_hi; "early" is judged against t_lo, "late" against t_hi.
    tr = r.evts("acc0", "EVT_FSM_TRANSITION")
    t_lo = t_hi = t0
    if sc["phase"] == "sta2":
        a = [h["t"] for h in tr if h["fsm_event"] == "Evt5"]
        if a:
            t_lo = t_hi = a[0]
    elif sc["phase"] == "sta13":
        a = [h["t"] for h in tr if h["action"] == "AE-8"]
        if a:
            t_lo = t_hi = a[0]
    else:
        rx = [h["t"] for h in r.evts("acc0", "EVT_DATA_RECV")]
        e6 = [h["t"] for h in tr if h["fsm_event"] == "Evt6"]
        if rx and e6:
            t_lo, t_hi = rx[-1], max(e6[0], rx[-1])
    el_lo = closes[0]["t"] - t_hi     # smallest elapsed time the timer can have measured
    el = closes[0]["t"] - t_lo        # largest
    margin = 0.06 + 0.05 * T
    if el < T - 0.012:
        out.append(C.v("system", "C09/system/%s/early" % sc["phase"], "closed after %.4f s of elapsed time, timeout is %.4f (jump %+.1f at %.2f T)" % (el, T, sc["jump"], sc["jump_at_frac"])))
    elif el_lo > T + margin:
        out.append(C.v("system", "C09/system/%s/late" % sc["phase"], "closed after %.4f s of elapsed time, timeout is %.4f (jump %+.1f at %.2f T)" % (el, T, sc["jump"], sc["jump_at_frac"])))
    return out


def nontrivial(sc, r):
    if sc["kind"] == "unit":
        return r.digest if r.obs.get("jumps_running") else None
    return r.digest if sc["jump"] and sc["jump_at_frac"] < 1.0 else None


def probes(sc, r):
    d = {"kind_" + sc["kind"]: True}
    if sc["kind"] == "unit":
        d["jump_while_running"] = bool(r.obs.get("jumps_running"))
        d["reads_expired_true"] = any(x["ref_expired"] for x in r.obs.get("reads", []))
    else:
        d["system_" + sc["phase"]] = True
    return d


def sample(sc, r):
    if sc["kind"] == "unit":
        return {"scenario": sc, "reads": r.obs.get("reads", [])[:8]}
    closes = r.evts("acc0", "EVT_CONN_CLOSE")
    return {"scenario": sc, "t_start": r.obs.get("t_start"), "closed_at": closes[0]["t"] if closes else None,
            "peer_saw": r.obs.get("peer_saw")}
