"""C14 - concurrent acceptor associations never exceed the configured maximum."""
from dsim.rawpeer import RawPeer
from props import common as C
from props import lifecycle as L
from ref import wire as W

ID = "C14"
LEVEL = "exploration"
TECHNIQUE = "deterministic simulation: N concurrent requestors (real AEs and scripted peers) against one real acceptor with a small maximum_associations, negotiation threads stalled and interleaved by the seeded scheduler; sweep over the acceptor-side event history"
RULE = (
    "a case = one acceptor AE with maximum_associations m in 1..4 and N in m-1..m+4 requestors (real AEs in their own user "
    "threads, or scripted peers) connecting within a seeded window, holding the association for a seeded time and then "
    "releasing/aborting, with seeded stalls of acceptor negotiation threads; in a third of the cases the entity listens on two ports and the requestors are spread over both; checked: at every event sequence number the number "
    "of acceptor associations that fired EVT_ESTABLISHED and have not yet ended is <= m, and every A-ASSOCIATE-RJ carries "
    "(rejected-transient, presentation-related, local-limit-exceeded); non-trivial = N > m and at least two negotiations "
    "overlapped in time; distinct = distinct run digests"
)
STUBS = ["scripted RawPeer for some of the requestors"]
ASSUMPTIONS = ["over-rejection (rejecting although a slot is free) is not a violation; it is counted as a probe"]


def budget(tier):
    if tier == "thorough":
        return {"runs": 6000, "wall": 2400, "selftest": 32, "shrink_s": 60}
    return {"runs": 320, "wall": 300, "selftest": 12, "shrink_s": 30}


def gen(rng, idx, tier):
    m = rng.randrange(1, 5)
    n = max(1, m - 1 + rng.randrange(0, 6))
    reqs = []
    for i in range(n):
        reqs.append({
            "kind": rng.choice(["real", "real", "raw"]),
            "start": rng.choice([0.0, 0.0, 0.0005, 0.001, 0.003, 0.01, 0.03]),
            "hold": rng.choice([0.0, 0.002, 0.01, 0.03, 0.08]),
            "end": rng.choice(["release", "release", "abort", "close"]),
            "echo": rng.randrange(2),
            "port": 0,
        })
    stalls = []
    for _ in range(rng.choice([0, 0, 1, 2])):
        stalls.append({"role": "assoc:acc%d" % rng.randrange(0, n), "at": rng.choice([0.0005, 0.001, 0.002, 0.005, 0.012]),
                       "dur": rng.choice([0.002, 0.01, 0.03])})
    servers = 1
    if rng.randrange(3) == 0:
        # the same application entity listens on two ports: the limit is the entity's, not a server's
        servers = 2
        for rq in reqs:
            rq["port"] = rng.randrange(2)
    return {"m": m, "reqs": reqs, "stalls": stalls, "servers": servers, "sched": C.gen_sched(rng), "net": C.gen_net(rng)}


def shrink(sc):
    import copy

    for i in range(len(sc["reqs"])):
        if len(sc["reqs"]) > 1:
            d = copy.deepcopy(sc)
            del d["reqs"][i]
            yield d
    for i in range(len(sc["stalls"])):
        d = copy.deepcopy(sc)
        del d["stalls"][i]
        yield d
    if sc["net"] != {"seg": "whole"}:
        d = copy.deepcopy(sc)
        d["net"] = {"seg": "whole"}
        yield d
    if sc["sched"].get("line_gap") or sc["sched"].get("sleep_jitter_pct"):
        d = copy.deepcopy(sc)
        d["sched"] = {"switch_pct": sc["sched"].get("switch_pct", 30)}
        yield d


def execute(sc, ctx):
    from pynetdicom import evt
    from pynetdicom.sop_class import Verification

    sim = ctx.sim
    scp = ctx.make_ae("SCP", acse=0.5, dimse=0.5, network=0.6, max_assoc=sc["m"])
    scp.add_supported_context(Verification)
    ctx.start_server(scp)
    if sc.get("servers", 1) > 1:
        ctx.start_server(scp, port=11114)
    for st in sc["stalls"]:
        def mk(st=st):
            def fire():
                t = ctx.task_by_role(st["role"])
                if t is not None and t.state != "done":
                    sim.stall(t, st["dur"])
                    sim.record("stall", role=st["role"], dur=st["dur"])
            return fire
        sim.at(st["at"], mk())
    out = ctx.obs["req"] = {}

    def real(i, rq):
        def run():
            ctx.sleep(rq["start"])
            ae = ctx.make_ae("SCU%d" % i, acse=0.5, dimse=0.5, network=0.6)
            ae.add_requested_context(Verification)
            assoc = ctx.associate(ae, port=11114 if rq.get("port") else 11112)
            out[i] = {"established": assoc.is_established, "rejected": assoc.is_rejected}
            if not assoc.is_established:
                return
            if rq["echo"]:
                assoc.send_c_echo()
            ctx.sleep(rq["hold"])
            if rq["end"] == "release":
                assoc.release()
            else:
                assoc.abort()
        return run

    def raw(i, rq):
        def run():
            ctx.sleep(rq["start"])
            p = RawPeer(ctx, "raw%d" % i)
            ac = p.associate([(1, C.VERIFICATION, [C.IVLE])], port=11114 if rq.get("port") else 11112, timeout=1.0, calling="RAW%d" % i)
            ok = isinstance(ac, dict)
            out[i] = {"established": ok, "rejected": isinstance(ac, tuple) and ac[0] == "rj"}
            if ok:
                ctx.sleep(rq["hold"])
                if rq["end"] == "release":
                    p.send(W.release_rq())
                    p.recv_until((6, 7), 0.5)
                elif rq["end"] == "abort":
                    p.send(W.abort(0, 0))
            p.close()
        return run

    ths = []
    for i, rq in enumerate(sc["reqs"]):
        ths.append(ctx.spawn((real if rq["kind"] == "real" else raw)(i, rq), "user:%d" % i))
    for th in ths:
        th.join()
    sim.record("scripts_done")
    ctx.wait_until(lambda: not any(a.is_alive() or a.dul.is_alive() for a in ctx.assocs.values()), 3.0, step=0.005)


def _sweep(r):
    """(max concurrently established acceptor associations, seq at which it was reached, timeline)."""
    ends = {}
    for t in r.tasks:
        role = t["role"] or ""
        if role.startswith("assoc:acc") and t["exit_seq"] is not None:
            ends[role.split(":")[1]] = t["exit_seq"]
    events = []
    for h in r.hist:
        if h["kind"] != "evt" or not h["assoc"].startswith("acc"):
            continue
        if h["evt"] == "EVT_ESTABLISHED":
            events.append((h["seq"], 0, +1, h["assoc"]))
        elif h["evt"] in ("EVT_RELEASED", "EVT_ABORTED"):
            events.append((h["seq"], 1, -1, h["assoc"]))
    live = set()
    done = set()
    best, best_seq = 0, None
    for lab, s in ends.items():
        events.append((s, 2, -1, lab))
    events.sort()
    for seq, _, d, lab in events:
        if d > 0:
            if lab not in done:
                live.add(lab)
        else:
            live.discard(lab)
            done.add(lab)
        if len(live) > best:
            best, best_seq = len(live), seq
    return best, best_seq


def check(sc, r):
    out, dead = L.thread_deaths(ID, r)
    if r.failure:
        out.append(C.v("liveness", "C14/run-%s" % r.failure, "run ended %s" % r.failure))
        return out
    best, seq = _sweep(r)
    if best > sc["m"]:
        out.append(C.v("limit", "C14/limit-exceeded/m%d/%d" % (sc["m"], best), "%d acceptor associations established at once (event seq %s), maximum_associations=%d" % (best, seq, sc["m"])))
    for cid in sorted(set(w["conn"] for w in r.wire)):
        s2c, _ = C.conn_pdus(r, cid, "s2c")
        for p in s2c:
            if p["type"] == 3:
                rj = W.parse_rj(p["payload"])
                t = (rj["result"], rj["source"], rj["reason"])
                if t != (2, 3, 2):
                    out.append(C.v("rj-reason", "C14/wrong-rj-reason/%d%d%d" % t, "connection %d rejected with %s instead of (2,3,2)" % (cid, t)))
    return out


def _overlap(r):
    """At least two acceptor negotiations overlapped (requested ... accepted/rejected windows intersect)."""
    win = []
    for lab in r.final:
        if not lab.startswith("acc"):
            continue
        a = [h["seq"] for h in r.evts(lab, "EVT_CONN_OPEN")]
        b = [h["seq"] for h in r.evts(lab) if h["evt"] in ("EVT_ESTABLISHED", "EVT_REJECTED", "EVT_ABORTED")]
        if a and b:
            win.append((a[0], b[0]))
    win.sort()
    return any(win[i + 1][0] < win[i][1] for i in range(len(win) - 1))


def nontrivial(sc, r):
    if len(sc["reqs"]) > sc["m"] and _overlap(r):
        return r.digest
    return None


def probes(sc, r):
    best, _ = _sweep(r)
    nrj = 0
    for cid in sorted(set(w["conn"] for w in r.wire)):
        s2c, _ = C.conn_pdus(r, cid, "s2c")
        nrj += len([p for p in s2c if p["type"] == 3])
    nest = len([1 for lab in r.final if lab.startswith("acc") and r.evts(lab, "EVT_ESTABLISHED")])
    d = {"reached_limit": best == sc["m"], "rejections": nrj, "negotiations_overlapped": _overlap(r),
         "over_rejection": nrj > 0 and nest < min(sc["m"], len(sc["reqs"])) and best < sc["m"], "N_gt_m": len(sc["reqs"]) > sc["m"]}
    return d


def sample(sc, r):
    best, seq = _sweep(r)
    return {"m": sc["m"], "requestors": sc["reqs"], "max_concurrently_established": best, "results": r.obs.get("req")}
