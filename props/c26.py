"""C26 - a failing notification handler never changes the protocol exchange."""
import hashlib

from dsim import harness as H
from props import common as C
from props import lifecycle as L
from ref import wire as W

ID = "C26"
LEVEL = "exploration"
TECHNIQUE = "differential deterministic replay: every simulated association history is run twice under the same seed, once with recording notification handlers and once with handlers that raise at a seeded subset of invocations; the wire transcripts, outcomes and API results of the two runs must be identical"
RULE = (
    "a case = one lifecycle scenario of two real AEs (sequential user script: C-ECHO, C-STORE, C-FIND, sleep, release or abort; "
    "acceptor policy accept or reject; fault-free network, yield-point scheduling) executed twice with the same seed: run A "
    "with recording handlers bound to all 17 notification events on both sides, run B with the same handlers raising at a "
    "seeded 10-100% subset of their invocations; checked: per connection and direction the same PDU sequence crossed the wire, "
    "both sides report the same outcome flags and the user calls returned the same results, and no thread died in run B; "
    "non-trivial = at least one handler actually raised in run B; distinct = distinct run-A digests"
    " Handlers are bound in the (event, handler) or the (event, handler, [args]) form. A quarter of the seeded cases and 26 directed ones "
    "exercise the second sentence: an intervention handler of any service raises - at once, or after 1-3 matches - and the wire must show the "
    "documented failure response (0xC211/0xC311/0xC411/0xC511, 0x0110 for DIMSE-N, no data set on a failed C-FIND) with exactly one final response."
)
ASSUMPTIONS = [
    "scenarios are restricted to sequential scripts without local races so that the exchange is schedule-independent; both runs use the same seed, so their schedules are identical unless the raising handler itself perturbs them",
    "the scenarios bind no second behaviour-changing handler to a notification event (each handler bound to a notification event is called whether or not an earlier one raised)",
]


def budget(tier):
    if tier == "thorough":
        return {"runs": 8000, "wall": 2400, "selftest": 24, "shrink_s": 60}
    return {"runs": 300, "wall": 300, "selftest": 10, "shrink_s": 30}


def _gen_intervention(rng):
    """Second sentence of the property: an *intervention* handler that raises (before, between or after its yields,
    or instead of returning) - the exception must come back as the documented failure response."""
    from props import scp as S

    op = rng.choice(S.OPS)
    b = S.gen_behaviour(rng, op)
    if "ret" in b:
        b["ret"] = {"t": "raise"}
    else:
        if rng.randrange(3) == 0 or not b.get("items"):
            b["mode"] = "raise_first"
        else:
            k = rng.randrange(len(b["items"]))
            b["items"] = [it for it in b["items"][:k] if "status" in it and it.get("ds") == "ds" and not it["status"].get("foreign_msg_id") and it["status"]["t"] in ("int", "ds") and it["status"].get("v") in (0xFF00, 0xFF01)] + [{"raise": True}]
            b["mode"] = "gen"
        if op in ("get", "move"):
            b["count"] = len(b.get("items", [])) + 1
        if op == "move":
            b["dest"] = "ok"
    return {"family": "intervention", "op": op, "beh": b, "msg_id": rng.choice([0, 1, 9]), "max_pdu": 16382, "second_echo": True,
            "sched": C.gen_sched(rng, fine_pct=10), "net": C.gen_net(rng)}


def directed(tier):
    """Every service's intervention handler raising: at once, and (generators) after 1-3 matches."""
    from props import scp as S

    out = []
    base = {"family": "intervention", "msg_id": 1, "max_pdu": 16382, "second_echo": True, "sched": {"switch_pct": 20}, "net": {"seg": "whole"}}
    pend = {"status": {"t": "int", "v": 0xFF00}, "ds": "ds"}
    for op in S.OPS:
        if op in S.GEN_OPS:
            out.append(dict(base, op=op, beh={"mode": "raise_first", "items": [], "count": 0, "dest": "ok", "store": ["ok"]}))
            for k in (1, 2, 3):
                # (announce one sub-operation more than delivered: results after the announced number are ignored by design)
                out.append(dict(base, op=op, beh={"mode": "gen", "items": [dict(pend) for _ in range(k)] + [{"raise": True}], "count": k + 1,
                                                  "dest": "ok", "store": ["ok"] * (k + 1)}))
        elif op in S.N_PAIR_OPS:
            out.append(dict(base, op=op, beh={"ret": {"t": "raise"}, "ds": "ds", "shape": "pair"}))
        else:
            out.append(dict(base, op=op, beh={"ret": {"t": "raise"}}))
    return out


def gen(rng, idx, tier):
    if idx % 4 == 3:
        return _gen_intervention(rng)
    t = rng.choice([0.1, 0.2])
    sc = {"sched": {"switch_pct": rng.choice([5, 15, 30, 50])}, "net": C.gen_net(rng)}
    sc["acc"] = {"acse": 2 * t, "dimse": 2 * t, "network": 6 * t, "max_pdu": rng.choice([0, 128, 16382]),
                 "echo_act": rng.choice(["none", "none", "sleep"]), "echo_sleep": 0.002, "find_k": rng.randrange(0, 4),
                 "find_sleep": rng.choice([0.0, 0.002]), "reject": rng.choice([None, None, None, "called_aet", "max_assoc"]),
                 "timeout_response": "A-ABORT"}
    ops = []
    for _ in range(rng.choice([0, 1, 2, 3])):
        o = rng.choice(["echo", "echo", "store", "find", "sleep"])
        d = {"op": o}
        if o == "store":
            d["size"] = rng.choice([0, 100, 3000])
        if o == "find":
            d["consume"] = 99
        if o == "sleep":
            d["d"] = rng.choice([0.001, 0.01])
        ops.append(d)
    sc["req"] = [{"acse": 2 * t, "dimse": 2 * t, "network": 6 * t, "max_pdu": rng.choice([0, 128, 16382]), "start_delay": 0.0,
                  "ops": ops, "final": rng.choice(["release", "release", "abort"]), "timeout_response": "A-ABORT"}]
    sc["acc_ops"] = []
    sc["faults"] = []
    sc["raise"] = {"seed": rng.randrange(10 ** 6), "pct": rng.choice([10, 30, 60, 100])}
    sc["handler_args"] = rng.randrange(2) == 0     # handlers bound as (event, handler) or as (event, handler, [args])
    # the handler itself: a function, a functools.partial or a callable object (the last two have no __name__)
    sc["handler_form"] = rng.choice(["function", "function", "partial", "object"])
    return sc


def shrink(sc):
    import copy

    if sc.get("family") == "intervention":
        return
    for d in L.shrink(sc):
        yield d
    if sc["raise"]["pct"] < 100:
        d = copy.deepcopy(sc)
        d["raise"]["pct"] = 100
        yield d


def execute(sc, ctx):
    return L.execute(sc, ctx)


def _transcript(r):
    out = {}
    for cid in sorted(set(w["conn"] for w in r.wire)):
        for d in ("c2s", "s2c"):
            pdus, rest = C.conn_pdus(r, cid, d)
            out["%d/%s" % (cid, d)] = ([W.pdu(p["type"], p["payload"]) for p in pdus], rest)
    return out


def run_case(sc, seed, replay=None, lenient=False):
    """Differential pair.  Run B is the reported/replayed run; run A (no raising) is recomputed from the same seed."""
    import copy

    if sc.get("family") == "intervention":
        from props import c20 as C20
        from props import c21 as C21
        from props import scp as S

        class _Scp:
            execute = staticmethod(S.execute)

        r = H.run_once(_Scp, sc, seed, replay=replay, lenient=lenient)
        viol = []
        for v in list(C20.check(sc, r)):
            v = dict(v)
            v["sig"] = "C26/intervention/" + v["sig"].split("/", 1)[1]
            viol.append(v)
        if not r.failure and r.obs.get("established"):
            rq, rsps, ends, s2c, _ = S.request_and_responses(sc, r)
            infos = [S.rsp_info(m, s2c) for m in rsps] if rq is not None else []
            op = sc["op"]
            want = 0x0110 if op.startswith("n_") else C21.EXC_CODE.get(op)
            fin = [x for x in infos if not S.is_pending(x["status"])]
            if fin and want is not None and fin[-1]["status"] != want:
                viol.append(C.v("failure-response", "C26/intervention/failure-status/%s" % op,
                                "the %s handler raised; the final response carries 0x%04X, documented failure status is 0x%04X" % (op, fin[-1]["status"] or 0, want)))
            for x in fin:
                if op in ("find",) and x["ds_len"]:
                    viol.append(C.v("failure-response", "C26/intervention/failure-response-with-dataset/%s" % op,
                                    "the failure response (0x%04X) of the raising %s handler carries a %d byte data set" % (x["status"] or 0, op, x["ds_len"])))
                    break
        r.obs["raised"] = len([h for h in r.hist if h["kind"] == "handler"])
        return r, viol, (sc["op"], repr(sc["beh"]))
    sa = copy.deepcopy(sc)
    sa.pop("raise", None)
    mod = _Plain
    ra = H.run_once(mod, sa, seed)
    rb = H.run_once(mod, sc, seed, replay=replay, lenient=lenient)
    viol = []
    dead_v, dead = L.thread_deaths(ID, rb)
    viol += dead_v
    if ra.failure or rb.failure:
        if rb.failure and not ra.failure:
            viol.append(C.v("liveness", "C26/run-%s-only-with-raising-handlers" % rb.failure, "run B ended %s, run A completed" % rb.failure))
        return rb, viol, None
    raised = rb.counters.get("fault.handler_raise", 0)
    ta, tb = _transcript(ra), _transcript(rb)
    if ta != tb:
        k = next((k for k in sorted(set(ta) | set(tb)) if ta.get(k) != tb.get(k)), None)
        a, b = ta.get(k, ([], b"")), tb.get(k, ([], b""))
        i = next((i for i in range(min(len(a[0]), len(b[0]))) if a[0][i] != b[0][i]), min(len(a[0]), len(b[0])))
        what = "length" if len(a[0]) != len(b[0]) else "content"
        ty = lambda lst: [x[0] for x in lst[:12]]
        viol.append(C.v("same-exchange", "C26/wire-transcript-differs/%s/%s" % (k.split("/")[1], what),
                        "connection/direction %s: PDU types without raising handlers %s, with raising handlers %s (first difference at PDU %d, %d handler invocations raised)" % (k, ty(a[0]), ty(b[0]), i, raised)))
    fa = {lab: L.outcome(st) for lab, st in ra.final.items()}
    fb = {lab: L.outcome(st) for lab, st in rb.final.items()}
    if fa != fb:
        viol.append(C.v("same-outcome", "C26/outcome-differs", "outcomes without raising handlers %s, with raising handlers %s" % (fa, fb)))
    qa = [x.get("results") for x in (ra.obs.get("req") or {}).values()]
    qb = [x.get("results") for x in (rb.obs.get("req") or {}).values()]
    if qa != qb:
        viol.append(C.v("same-outcome", "C26/api-results-differ", "user call results without raising handlers %s, with %s" % (qa, qb)))
    key = ra.digest if raised else None
    rb.obs["raised"] = raised
    rb.obs["a_digest"] = ra.digest
    return rb, viol, key


class _Plain:
    """Adapter so harness.run_once can call execute()."""
    execute = staticmethod(execute)


def check(sc, r):  # not used (run_case does the judging)
    return []


def probes(sc, r):
    if sc.get("family") == "intervention":
        return {"intervention_handler_raised": True, "intervention_" + sc["op"]: True}
    return {"handlers_raised": r.obs.get("raised", 0) > 0, "raise_invocations": r.obs.get("raised", 0),
            "rejected_scenario": bool(sc["acc"]["reject"]), "bound_with_args": bool(sc.get("handler_args")),
            "handler_is_partial_or_callable_object": sc.get("handler_form") in ("partial", "object")}


def sample(sc, r):
    if sc.get("family") == "intervention":
        from props import c21 as C21

        return C21.sample(sc, r)
    t = _transcript(r)
    return {"scenario": {"ops": sc["req"][0]["ops"], "final": sc["req"][0]["final"], "reject": sc["acc"]["reject"], "raise": sc["raise"]},
            "handler_invocations_that_raised": r.obs.get("raised"),
            "wire_pdu_types": {k: [x[0] for x in v[0]][:16] for k, v in t.items()}, "final": r.final}
