"""C26 - a failing notification handler never changes the protocol exchange."""
import hashlib

from dsim import harness as H
from props import common as C
from props import lifecycle as L
from ref import wire as W

ID = "C26"
LEVEL = "exploration"
TECHNIQUE = "differential deterministic replay: every simulated association history is run twice under the same seed, once with recording notification handlers and once with handlers that raise at a seeded subset of invocations; the wire transcripts, outcomes and API results of the two runs must be identical"
RULE = (
    "a case = one lifecycle scenario of two real AEs (sequential user script: C-ECHO, C-STORE, C-FIND, sleep, release or abort; "
    "acceptor policy accept or reject; fault-free network, yield-point scheduling) executed twice with the same seed: run A "
    "with recording handlers bound to all 17 notification events on both sides, run B with the same handlers raising at a "
    "seeded 10-100% subset of their invocations; checked: per connection and direction the same PDU sequence crossed the wire, "
    "both sides report the same outcome flags and the user calls returned the same results, and no thread died in run B; "
    "non-trivial = at least one handler actually raised in run B; distinct = distinct run-A digests"
)
ASSUMPTIONS = [
    "scenarios are restricted to sequential scripts without local races so that the exchange is schedule-independent; both runs use the same seed, so their schedules are identical unless the raising handler itself perturbs them",
    "a raising handler prevents later handlers bound to the same notification event from running (pynetdicom stops at the first exception); the scenarios bind no second behaviour-changing handler to a notification event",
]


def budget(tier):
    if tier == "thorough":
        return {"runs": 8000, "wall": 2400, "selftest": 24, "shrink_s": 60}
    return {"runs": 300, "wall": 300, "selftest": 10, "shrink_s": 30}


def gen(rng, idx, tier):
    t = rng.choice([0.1, 0.2])
    sc = {"sched": {"switch_pct": rng.choice([5, 15, 30, 50])}, "net": C.gen_net(rng)}
    sc["acc"] = {"acse": 2 * t, "dimse": 2 * t, "network": 6 * t, "max_pdu": rng.choice([0, 128, 16382]),
                 "echo_act": rng.choice(["none", "none", "sleep"]), "echo_sleep": 0.002, "find_k": rng.randrange(0, 4),
                 "find_sleep": rng.choice([0.0, 0.002]), "reject": rng.choice([None, None, None, "called_aet", "max_assoc"]),
                 "timeout_response": "A-ABORT"}
    ops = []
    for _ in range(rng.choice([0, 1, 2, 3])):
        o = rng.choice(["echo", "echo", "store", "find", "sleep"])
        d = {"op": o}
        if o == "store":
            d["size"] = rng.choice([0, 100, 3000])
        if o == "find":
            d["consume"] = 99
        if o == "sleep":
            d["d"] = rng.choice([0.001, 0.01])
        ops.append(d)
    sc["req"] = [{"acse": 2 * t, "dimse": 2 * t, "network": 6 * t, "max_pdu": rng.choice([0, 128, 16382]), "start_delay": 0.0,
                  "ops": ops, "final": rng.choice(["release", "release", "abort"]), "timeout_response": "A-ABORT"}]
    sc["acc_ops"] = []
    sc["faults"] = []
    sc["raise"] = {"seed": rng.randrange(10 ** 6), "pct": rng.choice([10, 30, 60, 100])}
    return sc


def shrink(sc):
    import copy

    for d in L.shrink(sc):
        yield d
    if sc["raise"]["pct"] < 100:
        d = copy.deepcopy(sc)
        d["raise"]["pct"] = 100
        yield d


def execute(sc, ctx):
    return L.execute(sc, ctx)


def _transcript(r):
    out = {}
    for cid in sorted(set(w["conn"] for w in r.wire)):
        for d in ("c2s", "s2c"):
            pdus, rest = C.conn_pdus(r, cid, d)
            out["%d/%s" % (cid, d)] = ([W.pdu(p["type"], p["payload"]) for p in pdus], rest)
    return out


def run_case(sc, seed, replay=None, lenient=False):
    """Differential pair.  Run B is the reported/replayed run; run A (no raising) is recomputed from the same seed."""
    import copy

    sa = copy.deepcopy(sc)
    sa.pop("raise", None)
    mod = _Plain
    ra = H.run_once(mod, sa, seed)
    rb = H.run_once(mod, sc, seed, replay=replay, lenient=lenient)
    viol = []
    dead_v, dead = L.thread_deaths(ID, rb)
    viol += dead_v
    if ra.failure or rb.failure:
        if rb.failure and not ra.failure:
            viol.append(C.v("liveness", "C26/run-%s-only-with-raising-handlers" % rb.failure, "run B ended %s, run A completed" % rb.failure))
        return rb, viol, None
    raised = rb.counters.get("fault.handler_raise", 0)
    ta, tb = _transcript(ra), _transcript(rb)
    if ta != tb:
        k = next((k for k in sorted(set(ta) | set(tb)) if ta.get(k) != tb.get(k)), None)
        a, b = ta.get(k, ([], b"")), tb.get(k, ([], b""))
        i = next((i for i in range(min(len(a[0]), len(b[0]))) if a[0][i] != b[0][i]), min(len(a[0]), len(b[0])))
        what = "length" if len(a[0]) != len(b[0]) else "content"
        ty = lambda lst: [x[0] for x in lst[:12]]
        viol.append(C.v("same-exchange", "C26/wire-transcript-differs/%s/%s" % (k.split("/")[1], what),
                        "connection/direction %s: PDU types without raising handlers %s, with raising handlers %s (first difference at PDU %d, %d handler invocations raised)" % (k, ty(a[0]), ty(b[0]), i, raised)))
    fa = {lab: L.outcome(st) for lab, st in ra.final.items()}
    fb = {lab: L.outcome(st) for lab, st in rb.final.items()}
    if fa != fb:
        viol.append(C.v("same-outcome", "C26/outcome-differs", "outcomes without raising handlers %s, with raising handlers %s" % (fa, fb)))
    qa = [x.get("results") for x in (ra.obs.get("req") or {}).values()]
    qb = [x.get("results") for x in (rb.obs.get("req") or {}).values()]
    if qa != qb:
        viol.append(C.v("same-outcome", "C26/api-results-differ", "user call results without raising handlers %s, with %s" % (qa, qb)))
    key = ra.digest if raised else None
    rb.obs["raised"] = raised
    rb.obs["a_digest"] = ra.digest
    return rb, viol, key


class _Plain:
    """Adapter so harness.run_once can call execute()."""
    execute = staticmethod(execute)


def check(sc, r):  # not used (run_case does the judging)
    return []


def probes(sc, r):
    return {"handlers_raised": r.obs.get("raised", 0) > 0, "raise_invocations": r.obs.get("raised", 0),
            "rejected_scenario": bool(sc["acc"]["reject"])}


def sample(sc, r):
    t = _transcript(r)
    return {"scenario": {"ops": sc["req"][0]["ops"], "final": sc["req"][0]["final"], "reject": sc["acc"]["reject"], "raise": sc["raise"]},
            "handler_invocations_that_raised": r.obs.get("raised"),
            "wire_pdu_types": {k: [x[0] for x in v[0]][:16] for k, v in t.items()}, "final": r.final}
