"""C11 - requestor and acceptor end up with the same view of the negotiated contexts."""
from props import common as C
from props import lifecycle as L
from props import negot as N

ID = "C11"
LEVEL = "exploration"
TECHNIQUE = "deterministic simulation of two real AEs negotiating seeded requested/supported contexts, role proposals and acceptances through the real A-ASSOCIATE-RQ/AC encoding over the simulated wire; both sides' accepted contexts compared"
RULE = (
    "a case = one association negotiation between two real AEs: 1-128 requested contexts (repeated abstract syntaxes, 1-4 "
    "transfer syntaxes each), supported contexts with scu_role/scp_role in {None, True, False}, SCP/SCU role selection "
    "proposals, normal and unrestricted-storage mode, random TCP segmentation; checked: every requested ID appears exactly once "
    "as accepted or rejected at the requestor, both sides hold the same accepted IDs with the same abstract and transfer "
    "syntax, and roles are complementary; non-trivial = at least one context was accepted and at least one role proposal or "
    "rejected context was involved; distinct = distinct (requested, supported, roles, mode) configurations (inputs dominate)"
)
ASSUMPTIONS = ["inputs dominate: schedule diversity adds nothing; the simulator supplies the deterministic two-party execution"]


def budget(tier):
    if tier == "thorough":
        return {"runs": 12000, "wall": 2400, "selftest": 24, "shrink_s": 40}
    return {"runs": 520, "wall": 300, "selftest": 12, "shrink_s": 20}


def gen(rng, idx, tier):
    sc = N.gen(rng)
    sc["sched"] = {"switch_pct": rng.choice([5, 30])}
    sc["net"] = {"seg": sc["seg"]}
    if sc["seg"] == "dribble":
        sc["net"].update({"dribble_max": 16, "dribble_gap": 0.00002})
    return sc


def shrink(sc):
    import copy

    for k in ("req", "sup", "roles"):
        for i in range(len(sc[k])):
            if k == "req" and len(sc["req"]) == 1:
                continue
            d = copy.deepcopy(sc)
            del d[k][i]
            yield d
    if sc["ext"]:
        d = copy.deepcopy(sc)
        d["ext"] = []
        yield d
    if sc["unrestricted"]:
        d = copy.deepcopy(sc)
        d["unrestricted"] = False
        yield d


execute = N.execute


def check(sc, r):
    out, dead = L.thread_deaths(ID, r)
    if r.failure:
        out.append(C.v("liveness", "C11/run-%s" % r.failure, "run ended %s" % r.failure))
        return out
    o = r.obs
    if o.get("associate_refused") or not o.get("established"):
        return out
    req, acc = o.get("req"), o.get("acc")
    if acc is None:
        out.append(C.v("views", "C11/no-acceptor-view", "requestor is established but the acceptor never reported EVT_ESTABLISHED"))
        return out
    proposed = [p[0] for p in o["proposed"]]
    seen = [c[0] for c in req["accepted"]] + [c[0] for c in req["rejected"]]
    if sorted(seen) != sorted(proposed):
        missing = sorted(set(proposed) - set(seen))
        dup = sorted(i for i in set(seen) if seen.count(i) > 1)
        out.append(C.v("every-context-once", "C11/requestor-contexts/%s" % ("missing" if missing else ("duplicate" if dup else "extra")),
                       "proposed ids %s; requestor reports accepted+rejected %s" % (proposed[:20], sorted(seen)[:20])))
    ra = {c[0]: c for c in req["accepted"]}
    aa = {c[0]: c for c in acc["accepted"]}
    if set(ra) != set(aa):
        out.append(C.v("same-accepted", "C11/accepted-sets-differ", "requestor accepted %s, acceptor accepted %s" % (sorted(ra), sorted(aa))))
    for i in sorted(set(ra) & set(aa)):
        a, b = ra[i], aa[i]
        if a[1] != b[1]:
            out.append(C.v("same-accepted", "C11/abstract-syntax-differs", "context %d: requestor %s acceptor %s" % (i, a[1], b[1])))
        if a[2] != b[2]:
            out.append(C.v("same-accepted", "C11/transfer-syntax-differs", "context %d: requestor %s acceptor %s" % (i, a[2], b[2])))
        if bool(a[3]) != bool(b[4]) or bool(a[4]) != bool(b[3]):
            proposed = any(x[0] == a[1] for x in sc["roles"])
            mode = "%s/%s" % ("unrestricted-storage" if sc["unrestricted"] else "normal", "role-proposed" if proposed else "no-role-proposal")
            out.append(C.v("roles", "C11/roles-not-complementary/%s/rq-%s%s-ac-%s%s" % (mode, int(bool(a[3])), int(bool(a[4])), int(bool(b[3])), int(bool(b[4]))),
                           "context %d (%s): requestor as_scu=%s as_scp=%s, acceptor as_scu=%s as_scp=%s" % (i, a[1], a[3], a[4], b[3], b[4])))
            break
    return out


def nontrivial(sc, r):
    o = r.obs
    if o.get("established") and o.get("req") and o["req"]["accepted"] and (sc["roles"] or o["req"]["rejected"]):
        return (repr(sc["req"]), repr(sc["sup"]), repr(sc["roles"]), sc["unrestricted"])
    return None


def probes(sc, r):
    o = r.obs
    d = {"established": bool(o.get("established")), "unrestricted": bool(sc["unrestricted"]), "role_proposals": len(sc["roles"])}
    if o.get("req"):
        d["accepted_contexts"] = len(o["req"]["accepted"])
        d["rejected_contexts"] = len(o["req"]["rejected"])
        d["requestor_scp_role_granted"] = any(c[4] for c in o["req"]["accepted"])
    d["many_contexts"] = len(sc["req"]) > 60
    return d


def sample(sc, r):
    return {"requested": sc["req"][:6], "supported": sc["sup"][:6], "roles": sc["roles"], "unrestricted": sc["unrestricted"],
            "requestor_view": (r.obs.get("req") or {}).get("accepted", [])[:6], "acceptor_view": (r.obs.get("acc") or {}).get("accepted", [])[:6]}
