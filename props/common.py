"""Shared pieces for the per-property scenario generators and oracles."""
import struct

from ref import wire as W

VERIFICATION = "1.2.840.10008.1.1"
CT = "1.2.840.10008.5.1.4.1.1.2"
MR = "1.2.840.10008.5.1.4.1.1.4"
SC = "1.2.840.10008.5.1.4.1.1.7"
PR_FIND = "1.2.840.10008.5.1.4.1.2.1.1"
PR_MOVE = "1.2.840.10008.5.1.4.1.2.1.2"
PR_GET = "1.2.840.10008.5.1.4.1.2.1.3"
SR_FIND = "1.2.840.10008.5.1.4.1.2.2.1"
SR_MOVE = "1.2.840.10008.5.1.4.1.2.2.2"
SR_GET = "1.2.840.10008.5.1.4.1.2.2.3"
MWL_FIND = "1.2.840.10008.5.1.4.31"
IVLE = "1.2.840.10008.1.2"
EVLE = "1.2.840.10008.1.2.1"
EVBE = "1.2.840.10008.1.2.2"
DEFL = "1.2.840.10008.1.2.1.99"
PRINT_JOB = "1.2.840.10008.5.1.1.14"
BASIC_FILM_SESSION = "1.2.840.10008.5.1.1.1"
PRINTER = "1.2.840.10008.5.1.1.16"
MPPS = "1.2.840.10008.3.1.2.3.3"
STORAGE_COMMIT = "1.2.840.10008.1.20.1"


def gen_sched(rng, fine_pct=30, jitter_pct=30):
    sc = {"switch_pct": rng.choice([5, 15, 30, 50, 70])}
    if rng.randrange(100) < fine_pct:
        sc["line_gap"] = rng.choice([10, 25, 60, 150])
    if rng.randrange(100) < jitter_pct:
        sc["sleep_jitter_pct"] = rng.choice([10, 50, 200])
    if rng.randrange(100) < 20:
        # starve one kind of thread: it only runs when nothing else can (slow / deprioritised thread)
        sc["low_prio"] = [rng.choice(["request", "assoc", "dul", "user", "server", "assoc:acc", "dul:acc", "assoc:req", "dul:req"])]
        sc["low_prio_pct"] = rng.choice([80, 95, 100])
    if rng.randrange(100) < 15:
        # a thread that has just started another thread is descheduled for a while (the child gets ahead)
        sc["spawn_stall_pct"] = rng.choice([30, 100])
        sc["spawn_stall"] = rng.choice([0.002, 0.02])
    return sc


def gen_net(rng, faulty=False):
    mode = rng.choice(["whole", "random", "random", "dribble"]) if rng.randrange(4) else "whole"
    net = {"seg": mode}
    if mode == "random":
        net["seg_pct"] = rng.choice([20, 40, 70])
        net["delays"] = rng.choice([[0.0, 0.0001, 0.0005, 0.002], [0.0, 0.001, 0.005], [0.0, 0.0002]])
    if mode == "dribble":
        net["dribble_max"] = rng.choice([1, 2, 7])
        net["dribble_gap"] = rng.choice([0.00005, 0.0002])
    if rng.randrange(3) == 0:
        net["short_write_pct"] = rng.choice([10, 40])
    return net


def small_ds(n=0, patient="TEST^%d"):
    from pydicom.dataset import Dataset

    ds = Dataset()
    ds.PatientName = patient % n if "%" in patient else patient
    ds.PatientID = "ID%04d" % n
    ds.QueryRetrieveLevel = "PATIENT"
    return ds


def store_ds(n=0, sop_class=CT, extra_bytes=0, ts=IVLE):
    from pydicom.dataset import Dataset

    ds = Dataset()
    ds.SOPClassUID = sop_class
    ds.SOPInstanceUID = "1.2.3.4.%d" % (n + 1)
    ds.PatientName = "STORE^%d" % n
    ds.PatientID = "S%04d" % n
    if extra_bytes:
        ds.ImageComments = "x" * extra_bytes
    from pydicom.dataset import FileMetaDataset

    ds.file_meta = FileMetaDataset()
    ds.file_meta.TransferSyntaxUID = ts
    return ds


# --- wire helpers ------------------------------------------------------------
def conn_pdus(r, cid, direction):
    """Complete PDUs of one direction of a connection, from the wire tap, with
    the global sequence number at which the last byte of each was written."""
    stream = b""
    ends = []  # (cumulative length, seq, t)
    for w in r.wire:
        if w["conn"] == cid and w["dir"] == direction:
            stream += w["data"]
            ends.append((len(stream), w["seq"], w["t"]))
    pdus, rest = W.frame(stream)
    out = []
    for t, payload, off in pdus:
        end = off + 6 + len(payload)
        seq = tt = None
        for ln, s, tm in ends:
            if ln >= end:
                seq, tt = s, tm
                break
        out.append({"type": t, "payload": payload, "off": off, "seq": seq, "t": tt})
    return out, rest


def pdu_types(pdus):
    return [p["type"] for p in pdus]


def as_frames(pdus):
    return [(p["type"], p["payload"], p["off"]) for p in pdus]


def terminal_events(r, label):
    return [h for h in r.hist if h["kind"] == "evt" and h["assoc"] == label and h["evt"] in ("EVT_RELEASED", "EVT_ABORTED", "EVT_REJECTED")]


def v(clause, sig, msg):
    return {"clause": clause, "sig": sig, "msg": msg}


def generic_thread_death(r, pid, allow=()):
    """Violation entries for simulated threads that died with an exception."""
    out = []
    for d in r.died:
        if d["exc"] in allow:
            continue
        role = (d["role"] or "?").split(":")[0]
        out.append(v("thread-died", "%s/thread-died/%s/%s" % (pid, role, d["exc"]), "thread %s died: %s: %s" % (d["role"], d["exc"], d["msg"])))
    return out


_PYN_FILES = ("association.py", "dul.py", "acse.py", "dimse.py", "transport.py", "fsm.py", "service_class.py", "ae.py", "events.py")


def hang_where(r):
    """Where pynetdicom's threads (and user threads inside pynetdicom calls) were when a run was capped or stuck:
    'assoc:kill+dul:run_reactor' - role kind and innermost pynetdicom function, sorted; used in signatures so that one
    known hang does not hide a different one."""
    parts = set()
    for t in r.failure_info or []:
        if not isinstance(t, dict):
            continue
        fn = None
        for fr in t.get("stack") or []:
            f = fr.split(":")
            if len(f) >= 3 and f[0] in _PYN_FILES:
                fn = f[2]
        if fn is not None:
            parts.add("%s:%s" % ((t.get("role") or "?").split(":")[0], fn))
    return "+".join(sorted(parts)) or "none"
