"""C23 - a C-CANCEL reaches exactly the operation it names."""
from dsim.rawpeer import RawPeer
from props import common as C
from props import lifecycle as L
from props import rawlife as R
from ref import wire as W

ID = "C23"
LEVEL = "exploration"
TECHNIQUE = "deterministic simulation: scripted requestor issues C-FIND/C-GET operations and C-CANCELs with matching, stale and foreign message IDs at seeded instants; real SCP handlers read event.is_cancelled at every yield; reference cancel-delivery oracle over the recorded history"
RULE = (
    "a case = a sequence of 1-3 C-FIND or C-GET operations (message IDs may repeat) sent by a scripted requestor to a real SCP "
    "whose handler reads event.is_cancelled before every yield and sleeps in between, with 0-14 C-CANCEL requests (matching, "
    "stale, foreign IDs) delivered before, during and after each operation; checked: is_cancelled is true only if a C-CANCEL "
    "naming this operation's message ID was received after this operation's request and before the read (never one received for "
    "an earlier operation), and a matching C-CANCEL received while the handler runs makes the next read true (up to the "
    "documented limit of 10 stored requests); non-trivial = at least one C-CANCEL was received while a handler was running; "
    "distinct = distinct run digests"
)
STUBS = ["scripted RawPeer (requestor)"]
ASSUMPTIONS = [
    "the window between arrival of the request and invocation of the handler counts as 'before' (the mechanism clears pending cancels around SCP calls); it is reported as a probe, not judged",
    "at most 10 C-CANCEL requests are stored (documented limit); the must-be-reported clause is only judged while fewer than 10 are pending",
]


def budget(tier):
    if tier == "thorough":
        return {"runs": 10000, "wall": 2400, "selftest": 32, "shrink_s": 60}
    return {"runs": 480, "wall": 300, "selftest": 12, "shrink_s": 30}


def gen(rng, idx, tier):
    nops = rng.choice([1, 1, 2, 2, 3])
    ids = [rng.choice([0, 1, 2, 3, 7, 65535]) for _ in range(nops)]
    ops = []
    for i in range(nops):
        k = rng.randrange(1, 6)
        gap = rng.choice([0.001, 0.002, 0.004])
        ncan = rng.choice([0, 1, 1, 2, 3, 12]) if rng.randrange(6) else rng.choice([11, 14])
        cancels = []
        for _ in range(ncan):
            cid = rng.choice([ids[i], ids[i], ids[i], rng.choice([0, 1, 2, 3, 7, 9]), 99])
            cancels.append({"at": round(rng.random() * (k + 1) * gap * 1.3 - 0.3 * gap, 6), "id": cid})
        cancels.sort(key=lambda c: c["at"])
        ops.append({"kind": rng.choice(["find", "find", "get"]), "id": ids[i], "k": k, "gap": gap, "cancels": cancels,
                    "after": [{"id": rng.choice([ids[i], ids[min(i + 1, nops - 1)], 99])} for _ in range(rng.choice([0, 0, 1, 2]))],
                    "stop_on_cancel": rng.randrange(2)})
    return {"ops": ops, "sched": C.gen_sched(rng, fine_pct=25), "net": C.gen_net(rng)}


def shrink(sc):
    import copy

    for i in range(len(sc["ops"])):
        if len(sc["ops"]) > 1:
            d = copy.deepcopy(sc)
            del d["ops"][i]
            yield d
    for i, op in enumerate(sc["ops"]):
        for j in range(len(op["cancels"])):
            d = copy.deepcopy(sc)
            del d["ops"][i]["cancels"][j]
            yield d
        for j in range(len(op["after"])):
            d = copy.deepcopy(sc)
            del d["ops"][i]["after"][j]
            yield d
        if op["k"] > 1:
            d = copy.deepcopy(sc)
            d["ops"][i]["k"] -= 1
            yield d
    if sc["net"] != {"seg": "whole"}:
        d = copy.deepcopy(sc)
        d["net"] = {"seg": "whole"}
        yield d
    if sc["sched"].get("line_gap") or sc["sched"].get("sleep_jitter_pct"):
        d = copy.deepcopy(sc)
        d["sched"] = {"switch_pct": sc["sched"].get("switch_pct", 30)}
        yield d


def execute(sc, ctx):
    from pynetdicom import evt

    sim = ctx.sim
    state = {"op": -1}

    def handler(kind):
        def h(event):
            state["op"] += 1
            oi = state["op"]
            op = sc["ops"][oi] if oi < len(sc["ops"]) else {"k": 1, "gap": 0.001, "stop_on_cancel": 1}
            mid = event.request.MessageID
            sim.record("handler", op=kind, phase="start", oi=oi, msg_id=mid)
            if kind == "get":
                yield 0
            for i in range(op["k"]):
                ctx.sleep(op["gap"])
                c = event.is_cancelled
                sim.record("cancel_read", oi=oi, msg_id=mid, i=i, value=bool(c))
                if c and op["stop_on_cancel"]:
                    sim.record("handler", op=kind, phase="end", oi=oi, msg_id=mid)
                    yield 0xFE00, None
                    return
                if kind == "find":
                    yield 0xFF00, C.small_ds(i)
            c = event.is_cancelled
            sim.record("cancel_read", oi=oi, msg_id=mid, i=op["k"], value=bool(c))
            sim.record("handler", op=kind, phase="end", oi=oi, msg_id=mid)
        return h

    ae = ctx.make_ae("ANY-SCP", acse=1.0, dimse=1.0, network=1.5)
    ae.add_supported_context(C.PR_FIND)
    ae.add_supported_context(C.PR_GET)
    ctx.start_server(ae, handlers=[(evt.EVT_C_FIND, handler("find")), (evt.EVT_C_GET, handler("get"))])
    p = RawPeer(ctx)
    ac = p.associate([(1, C.PR_FIND, [C.IVLE]), (3, C.PR_GET, [C.IVLE])], timeout=1.0)
    ctx.obs["ac"] = isinstance(ac, dict)
    if not isinstance(ac, dict):
        return
    for oi, op in enumerate(sc["ops"]):
        cx = 1 if op["kind"] == "find" else 3
        t0 = sim.now
        pend = list(op["cancels"])
        # cancels scheduled before the request
        while pend and pend[0]["at"] <= 0:
            c = pend.pop(0)
            sim.record("cancel_sent", oi=oi, id=c["id"], rel="before")
            p.send(R.build({"pdu": "cancel", "ctx": cx, "msg_id": c["id"]}))
        sim.record("request_sent", oi=oi, id=op["id"], what=op["kind"])
        if op["kind"] == "find":
            p.send(R.build({"pdu": "find_rq", "ctx": 1, "msg_id": op["id"]}))
        else:
            p.send(b"".join(W.fragment(3, W.rq("C-GET-RQ", op["id"], C.PR_GET, True), R.FIND_DS)))
        done = False
        deadline = sim.now + (op["k"] + 2) * op["gap"] * 3 + 0.3
        while not done and sim.now < deadline:
            nxt = (t0 + pend[0]["at"]) if pend else None
            if nxt is not None and nxt <= sim.now:
                c = pend.pop(0)
                sim.record("cancel_sent", oi=oi, id=c["id"], rel="during")
                p.send(R.build({"pdu": "cancel", "ctx": cx, "msg_id": c["id"]}))
                continue
            wait = min(deadline - sim.now, (nxt - sim.now) if nxt is not None else 1.0)
            got = p.recv_pdu(max(wait, 0.00005))
            if isinstance(got, str):
                if got in ("closed", "reset"):
                    ctx.obs["peer_saw"] = got
                    return
                continue
            if got[0] == 7:
                ctx.obs["peer_saw"] = "abort"
                return
            if got[0] == 4:
                for pv in W.parse_pdata(got[1]):
                    if pv[1] and pv[2]:
                        cmd = W.parse_command(pv[3])
                        st = cmd.get(W.T_STATUS)
                        if cmd.get(W.T_MESSAGE_ID_RSP) == op["id"] and st not in (0xFF00, 0xFF01):
                            done = True
        for c in pend:
            sim.record("cancel_sent", oi=oi, id=c["id"], rel="late")
            p.send(R.build({"pdu": "cancel", "ctx": cx, "msg_id": c["id"]}))
        for c in op["after"]:
            sim.record("cancel_sent", oi=oi, id=c["id"], rel="after")
            p.send(R.build({"pdu": "cancel", "ctx": cx, "msg_id": c["id"]}))
        ctx.sleep(0.002)
    p.send(W.release_rq())
    ctx.obs["peer_saw"] = p.recv_until((6, 7), 0.5)
    ctx.obs["peer_saw"] = ctx.obs["peer_saw"] if isinstance(ctx.obs["peer_saw"], str) else ctx.obs["peer_saw"][0]
    p.close()
    ctx.wait_until(lambda: not any(a.is_alive() or a.dul.is_alive() for a in ctx.assocs.values()), 3.0, step=0.005)


def _timeline(r):
    """Per operation: request received seq, handler start/end seq, reads; and all cancels received (seq, id)."""
    cancels = []
    reqs = []
    for h in r.evts("acc0", "EVT_DIMSE_RECV"):
        if h["msg"] == "C_CANCEL_RQ":
            cancels.append({"seq": h["seq"], "id": h.get("rsp_to")})
        elif h["msg"] in ("C_FIND_RQ", "C_GET_RQ"):
            reqs.append({"seq": h["seq"], "id": h.get("msg_id")})
    ops = {}
    for h in r.hist:
        if h["kind"] == "handler" and h.get("phase") in ("start", "end") and "oi" in h:
            ops.setdefault(h["oi"], {"reads": []})[h["phase"]] = h["seq"]
            ops[h["oi"]]["id"] = h["msg_id"]
        elif h["kind"] == "cancel_read":
            ops.setdefault(h["oi"], {"reads": []})["reads"].append({"seq": h["seq"], "value": h["value"], "i": h["i"]})
    return cancels, reqs, ops


def check(sc, r):
    out, dead = L.thread_deaths(ID, r)
    if r.failure:
        out.append(C.v("liveness", "C23/run-%s" % r.failure, "run ended %s" % r.failure))
        return out
    if not r.obs.get("ac"):
        return out
    cancels, reqs, ops = _timeline(r)
    for oi in sorted(ops):
        o = ops[oi]
        if "start" not in o or oi >= len(reqs):
            continue
        rq_seq = reqs[oi]["seq"]
        mid = o["id"]
        used = set()
        prev_read_seq = o["start"]
        for rd in o["reads"]:
            mine = [c for c in cancels if c["id"] == mid and rq_seq <= c["seq"] <= rd["seq"]]
            fresh = [c for c in mine if c["seq"] not in used]
            if rd["value"]:
                if not fresh:
                    earlier = [c for c in cancels if c["id"] == mid and c["seq"] < rq_seq]
                    kind = "carried-over" if earlier else "no-cancel"
                    out.append(C.v("only-if-cancelled", "C23/cancelled-without-cancel/%s" % kind,
                                   "operation %d (msg id %s) read is_cancelled=True at seq %d but no unconsumed C-CANCEL for that id was received since its request (seq %d); cancels received: %s" % (oi, mid, rd["seq"], rq_seq, cancels)))
                    break
                for c in fresh:
                    used.add(c["seq"])
            else:
                # a matching cancel received strictly inside the handler's run, before this read, must have been reported
                inprog = [c for c in fresh if c["seq"] > o["start"] and c["seq"] < prev_read_seq]
                pending_total = len([c for c in cancels if rq_seq <= c["seq"] <= rd["seq"]])
                if inprog and pending_total <= 10:
                    out.append(C.v("reported", "C23/cancel-not-reported", "operation %d (msg id %s): matching C-CANCEL received at seq %s while the handler was running, but the read at seq %d returned False" % (oi, mid, [c["seq"] for c in inprog], rd["seq"])))
                    break
            prev_read_seq = rd["seq"]
    # the association must survive any number of cancels: the peer's release must be answered
    if r.obs.get("peer_saw") not in (6,):
        n = len(cancels)
        out.append(C.v("survives", "C23/association-lost/%s" % ("over-10-cancels" if n > 10 else "cancels"),
                       "after %d C-CANCEL requests the scripted requestor's release was not answered (peer saw %s)" % (n, r.obs.get("peer_saw"))))
    return out


def nontrivial(sc, r):
    cancels, reqs, ops = _timeline(r)
    for o in ops.values():
        if "start" in o and any(o["start"] < c["seq"] < o.get("end", 1 << 60) for c in cancels):
            return r.digest
    return None


def probes(sc, r):
    cancels, reqs, ops = _timeline(r)
    d = {"cancels_received": len(cancels), "operations": len(ops)}
    d["true_reads"] = len([1 for o in ops.values() for rd in o["reads"] if rd["value"]])
    d["cancel_during_handler"] = any("start" in o and any(o["start"] < c["seq"] < o.get("end", 1 << 60) for c in cancels) for o in ops.values())
    d["cancel_between_request_and_handler"] = any(oi < len(reqs) and "start" in o and any(reqs[oi]["seq"] <= c["seq"] < o["start"] for c in cancels) for oi, o in ops.items())
    d["more_than_10_cancels"] = len(cancels) > 10
    return d


def sample(sc, r):
    cancels, reqs, ops = _timeline(r)
    return {"ops": sc["ops"], "cancels_received": cancels, "requests_received": reqs,
            "reads": {oi: [(rd["seq"], rd["value"]) for rd in o["reads"]] for oi, o in ops.items()}}
