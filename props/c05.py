"""C05 - no schedule drives the provider into an undefined event; it returns to idle."""
from props import common as C
from props import lifecycle as L
from props import rawlife as R

ID = "C05"
LEVEL = "exploration"
TECHNIQUE = "deterministic simulation: seeded interleavings of peer PDUs (expected, unexpected, invalid), connection loss, ARTIM expiry, thread stalls and local user/ACSE requests; invariant = only defined (state,event) cells are processed, provider ends in Sta1 with the socket closed"
RULE = (
    "a case = either two real AEs running seeded user scripts with optional reset/stall/thread-stall faults (F1), or one real "
    "AE (acceptor or requestor) against a scripted byte peer that sends expected, unexpected and invalid PDUs, dribbles the "
    "A-ASSOCIATE-RQ around the ACSE timeout, floods, closes or resets at seeded points while local users abort/release, handlers abort/release from pynetdicom's own thread and provider/association threads are stalled (F2); "
    "non-trivial = the provider processed at least one event outside the plain associate/data/release path (abort, collision, "
    "ARTIM, invalid PDU, transport loss) or a local request raced a state change; distinct = distinct run digests"
)
STUBS = ["scripted RawPeer in the F2 half of the cases"]
ASSUMPTIONS = ["bounded runs: <= 400000 scheduler steps, <= 600 s virtual time"]

PLAIN = {("Sta1", "Evt1"), ("Sta4", "Evt2"), ("Sta5", "Evt3"), ("Sta1", "Evt5"), ("Sta2", "Evt6"), ("Sta3", "Evt7"),
         ("Sta6", "Evt9"), ("Sta6", "Evt10"), ("Sta6", "Evt11"), ("Sta6", "Evt12"), ("Sta7", "Evt13"), ("Sta8", "Evt14"),
         ("Sta13", "Evt17")}


def budget(tier):
    if tier == "thorough":
        return {"runs": 16000, "wall": 2400, "selftest": 48, "shrink_s": 90}
    return {"runs": 640, "wall": 300, "selftest": 16, "shrink_s": 40}


def gen_f2(rng):
    t = rng.choice([0.05, 0.1, 0.2])
    ae = {"acse": t, "dimse": rng.choice([t, 2 * t]), "network": rng.choice([t, 3 * t]), "find_k": rng.randrange(0, 3),
          "find_sleep": rng.choice([0.0, 0.002])}
    role = rng.choice(["acceptor", "acceptor", "requestor"])
    if rng.randrange(5) == 0:
        ae["echo_act"] = rng.choice(["abort", "abort", "release"])
        ae["echo_act_sleep"] = rng.choice([0.0, 0.0, 0.003])
    peer = []
    misc = ["echo_rq", "release_rq", "abort", "unknown", "garbage", "ac", "rj", "rq", "release_rp", "find_rq", "store_rq", "echo_rsp", "cancel"]
    if role == "acceptor":
        first = rng.choice(["rq", "rq", "rq", "rq_slow", "rq_bad_version", "other", "none"])
        if first == "rq":
            peer.append({"do": "send", "pdu": "rq"})
            peer.append({"do": "expect", "types": [2, 3, 7], "t": 4 * t})
        elif first == "rq_slow":
            n = rng.randrange(1, 4)
            cuts = sorted(rng.sample(range(1, 200), n))
            peer.append({"do": "send", "pdu": "rq", "cuts": cuts, "gap": rng.choice([0.2, 0.6, 0.95, 1.05, 1.5, 3.0]) * t})
            peer.append({"do": "expect", "types": [2, 3, 7], "t": 4 * t})
        elif first == "rq_bad_version":
            peer.append({"do": "send", "pdu": "rq", "version": rng.choice([0, 2, 0xFFFF])})
            peer.append({"do": "expect", "types": [2, 3, 7], "t": 4 * t})
        elif first == "other":
            peer.append({"do": "send", "pdu": rng.choice(misc)})
        else:
            peer.append({"do": "sleep", "d": rng.choice([0.5, 1.1, 2.0]) * t})
    else:
        peer.append({"do": "expect", "types": [1], "t": 1.0})
        ans = rng.choice(["ac", "ac", "ac", "rj", "abort", "garbage", "echo_rq", "none", "close", "release_rq", "rq"])
        if ans == "none":
            peer.append({"do": "sleep", "d": rng.choice([0.5, 1.2, 2.5]) * t})
        elif ans == "close":
            peer.append({"do": "close"})
        else:
            st = {"do": "send", "pdu": ans}
            if rng.randrange(4) == 0:
                st["cuts"] = [rng.randrange(1, 6)]
                st["gap"] = rng.choice([0.3, 1.2]) * t
            peer.append(st)
    for _ in range(rng.randrange(0, 4)):
        k = rng.randrange(10)
        if k < 5:
            st = {"do": "send", "pdu": rng.choice(misc)}
            if st["pdu"] in ("unknown",):
                st["type"] = rng.choice([0, 8, 0x10, 0xFF])
            if st["pdu"] == "garbage":
                st["n"] = rng.choice([1, 5, 6, 30])
                st["seed"] = rng.randrange(1000)
            if rng.randrange(5) == 0:
                st["cut"] = rng.randrange(1, 12)
            peer.append(st)
        elif k < 7:
            peer.append({"do": "sleep", "d": rng.choice([0.001, 0.01, 0.5 * t, 1.3 * t])})
        elif k < 9:
            peer.append({"do": "recv", "t": rng.choice([0.01, t])})
        else:
            peer.append({"do": rng.choice(["close", "reset", "stall"])})
            break
    if rng.randrange(7) == 0 and peer[-1]["do"] not in ("close", "reset", "stall"):
        # the peer ignores whatever it is told and keeps sending for 0.5 - 3 ACSE timeouts
        gap = rng.choice([0.002, 0.01])
        dur = rng.choice([0.5, 1.5, 3.0]) * t
        st = {"do": "flood", "pdu": rng.choice(["echo_rq", "echo_rq", "unknown", "rq", "release_rq", "find_rq"]), "n": max(1, int(dur / gap)), "gap": gap}
        if st["pdu"] == "unknown":
            st["type"] = rng.choice([0, 8, 0xFF])
        peer.append(st)
    if peer[-1]["do"] not in ("close", "reset", "stall"):
        peer.append({"do": rng.choice(["close", "close", "drain", "stall", "reset"]), "t": 3 * t})
    stalls = []
    if rng.randrange(6) == 0:
        # a provider / association thread of the real side is not scheduled for a while (slow node, GC pause)
        side = "acc0" if role == "acceptor" else "req0"
        stalls.append({"role": rng.choice(["dul:", "dul:", "assoc:"]) + side, "at": rng.choice([0.0005, 0.002, 0.01, 0.5 * t]),
                       "dur": rng.choice([0.5, 1.2, 2.5]) * t})
    user = []
    if role == "acceptor":
        if rng.randrange(2) == 0:
            user.append({"op": rng.choice(["abort", "release"]), "after": rng.choice([0.0, 0.001, 0.004, 0.02]), "wait": 2 * t + 0.2})
    else:
        for _ in range(rng.randrange(0, 3)):
            o = rng.choice(["echo", "find", "release", "abort", "sleep", "release_abort", "echo_abort"])
            d = {"op": o}
            if o == "sleep":
                d["d"] = rng.choice([0.001, 0.5 * t])
            if o == "find":
                d["consume"] = rng.randrange(0, 3)
            if o in ("release_abort", "echo_abort"):
                d["gap"] = rng.choice([0.0, 0.001])
            user.append(d)
    return {"family": "F2", "role": role, "ae": ae, "peer": peer, "user": user, "stalls": stalls,
            "sched": C.gen_sched(rng), "net": C.gen_net(rng)}


def gen(rng, idx, tier):
    if idx % 2 == 0:
        sc = L.gen_scenario(rng, faulty=(idx % 4 == 2))
        sc["family"] = "F1"
        return sc
    return gen_f2(rng)


def shrink(sc):
    if sc["family"] == "F1":
        for d in L.shrink(sc):
            yield d
        return
    import copy

    for i in range(len(sc["peer"])):
        d = copy.deepcopy(sc)
        del d["peer"][i]
        if d["peer"]:
            yield d
    for i in range(len(sc["user"])):
        d = copy.deepcopy(sc)
        del d["user"][i]
        yield d
    for i, st in enumerate(sc["peer"]):
        if st.get("cuts") or st.get("cut"):
            d = copy.deepcopy(sc)
            d["peer"][i].pop("cuts", None)
            d["peer"][i].pop("cut", None)
            d["peer"][i].pop("gap", None)
            yield d
    if sc["net"] != {"seg": "whole"}:
        d = copy.deepcopy(sc)
        d["net"] = {"seg": "whole"}
        yield d
    if sc["sched"].get("line_gap") or sc["sched"].get("sleep_jitter_pct"):
        d = copy.deepcopy(sc)
        d["sched"] = {"switch_pct": sc["sched"].get("switch_pct", 30)}
        yield d


def execute(sc, ctx):
    if sc["family"] == "F1":
        return L.execute(sc, ctx)
    return R.execute(sc, ctx)


def check(sc, r):
    out, dead = L.thread_deaths(ID, r)
    if r.failure:
        roles = sorted(set((t.get("role") or "?").split(":")[0] for t in (r.failure_info or []))) if r.failure == "stuck" else []
        fsm = "+".join(sorted(set(st.get("fsm", "?") for st in r.final.values() if "error" not in st)))
        out.append(C.v("liveness", "C05/run-%s/%s/%s" % (r.failure, C.hang_where(r), fsm), "run ended %s: %s" % (r.failure, r.failure_info)))
        return out
    for v in out:
        if v["sig"] == "C05/undefined-event/acc/Sta3+Evt18":
            v["sig"] += "/" + _stale_artim_cause(sc, r, v["msg"])
    out += L.check_fsm_lockstep(ID, r)
    out += L.check_back_to_idle(ID, r, dead)
    return out


def _stale_artim_cause(sc, r, msg):
    """Why Evt18 was raised in Sta3.  The known defect: the A-ASSOCIATE-RQ is read (or the provider thread is
    held up) across the ARTIM expiry instant *after* the reactor iteration has already looked at the timer; AE-6
    then stops an already expired timer whose `expired` stays true and the NEXT iteration queues Evt18 - i.e.
    Evt18 is queued after Sta2+Evt6 has been processed.  Evt18 queued before the request was processed and still
    ending up in Sta3 is a different defect (events handled out of order)."""
    import re

    m = re.search(r"dul:(acc\d+)", msg)
    lab = m.group(1) if m else "acc0"
    e6 = [h["seq"] for h in r.evts(lab, "EVT_FSM_TRANSITION") if h["state"] == "Sta2" and h["fsm_event"] == "Evt6"]
    q18 = [h["seq"] for h in r.hist if h["kind"] == "evq" and h["item"] == "Evt18" and h.get("role") == "dul:" + lab]
    if e6 and q18 and q18[0] > e6[0]:
        return "expired-timer-stopped-by-AE-6"
    return "other"


def _cells(r):
    return set((h["state"], h["fsm_event"]) for h in r.evts(name="EVT_FSM_TRANSITION"))


def nontrivial(sc, r):
    if _cells(r) - PLAIN:
        return r.digest
    return None


def probes(sc, r):
    d = {"family_" + sc["family"]: True}
    for s, e in _cells(r):
        d["cell_%s+%s" % (s, e)] = True
    d["fault_fired"] = L.fault_fired(r) or any(h["kind"] in ("peer_reset", "peer_stall") for h in r.hist)
    return d


def sample(sc, r):
    return {"scenario": sc, "cells": sorted("%s+%s" % c for c in _cells(r)), "final": r.final,
            "peer_seen": r.obs.get("peer_seen"), "steps": r.steps, "virtual_time": round(r.now, 4)}
