"""C19 - requests on presentation contexts that were not accepted never reach a handler."""
import struct

from dsim.rawpeer import RawPeer
from props import common as C
from props import lifecycle as L
from ref import wire as W

ID = "C19"
LEVEL = "fault_enumeration"
TECHNIQUE = "deterministic simulation with an enumerated misbehaving peer: a scripted peer sends every DIMSE request type on every presentation context ID 0-255 relative to the accepted set; oracle on handler invocations, responses on the wire and association outcome"
RULE = (
    "a case = one association of a real AE with a scripted peer that sends one DIMSE request (C-ECHO/STORE/FIND/GET/MOVE, "
    "N-EVENT-REPORT/GET/SET/ACTION/CREATE/DELETE) on presentation context ID x; real acceptor for all request types, and real "
    "requestor receiving a C-STORE sub-operation during its own C-GET; x enumerated over 0..255 in the thorough tier and over "
    "accepted/rejected/never-proposed/even/boundary IDs in the quick tier; non-trivial = x is not an accepted context ID; "
    "distinct = distinct (request type, role, x)"
    " In a further family the command set travels under the unaccepted ID while the data-set PDVs use the accepted context of that SOP class."
)
STUBS = ["scripted RawPeer (the misbehaving peer)"]
EXHAUSTIVE = {"thorough": True, "quick": False}

# proposed contexts: 1 Verification, 3 CT, 5 PR-FIND, 7 PR-GET, 9 PR-MOVE, 11 Printer, 13 Film session,
# 15 MR (abstract syntax NOT supported by the acceptor -> rejected)
PROPOSED = [(1, C.VERIFICATION), (3, C.CT), (5, C.PR_FIND), (7, C.PR_GET), (9, C.PR_MOVE), (11, C.PRINTER),
            (13, C.BASIC_FILM_SESSION), (15, C.MR)]
ACCEPTED = {1, 3, 5, 7, 9, 11, 13}
REQS = ["echo", "store", "find", "get", "move", "n_event_report", "n_get", "n_set", "n_action", "n_create", "n_delete"]
HOME = {"echo": 1, "store": 3, "find": 5, "get": 7, "move": 9, "n_event_report": 11, "n_get": 11, "n_set": 13,
        "n_action": 13, "n_create": 13, "n_delete": 13}
QUICK_IDS = [0, 1, 2, 3, 4, 5, 7, 9, 11, 13, 15, 17, 19, 64, 127, 128, 129, 253, 254, 255]


def el(g, e, v):
    if len(v) % 2:
        v += b" "
    return struct.pack("<HHL", g, e, len(v)) + v


DS = el(8, 0x52, b"PATIENT") + el(0x10, 0x10, b"X")
STORE_DS = el(8, 0x16, C.CT.encode() + b"\x00") + el(8, 0x18, b"1.2.3.4.5\x00") + el(0x10, 0x10, b"NAME")


def request_bytes(kind, ctx, msg_id=7, data_ctx=None):
    """The request as P-DATA-TF PDUs on context `ctx`; with `data_ctx` the data-set PDVs travel under that (accepted)
    context ID instead - the message still belongs to the context of its command set."""
    b = _request_bytes(kind, ctx, msg_id)
    if data_ctx is None:
        return b
    pdus, _rest = W.frame(b)
    out = b""
    for _t, payload, _off in pdus:
        pdvs = [(data_ctx if not is_cmd else c, is_cmd, last, data) for c, is_cmd, last, data in W.parse_pdata(payload)]
        out += W.pdata(pdvs)
    return out


def _request_bytes(kind, ctx, msg_id=7):
    inst = "1.2.840.10008.5.1.1.17"
    if kind == "echo":
        return b"".join(W.fragment(ctx, W.rq("C-ECHO-RQ", msg_id, C.VERIFICATION), None))
    if kind == "store":
        return b"".join(W.fragment(ctx, W.rq("C-STORE-RQ", msg_id, C.CT, True, extra={W.T_AFFECTED_INSTANCE: "1.2.3.4.5"}), STORE_DS))
    if kind == "find":
        return b"".join(W.fragment(ctx, W.rq("C-FIND-RQ", msg_id, C.PR_FIND, True), DS))
    if kind == "get":
        return b"".join(W.fragment(ctx, W.rq("C-GET-RQ", msg_id, C.PR_GET, True), DS))
    if kind == "move":
        return b"".join(W.fragment(ctx, W.rq("C-MOVE-RQ", msg_id, C.PR_MOVE, True, extra={W.T_MOVE_DEST: "DEST".ljust(16)}), DS))
    if kind == "n_event_report":
        return b"".join(W.fragment(ctx, W.rq("N-EVENT-REPORT-RQ", msg_id, C.PRINTER, True, extra={W.T_AFFECTED_INSTANCE: inst, W.T_EVENT_TYPE: 1}), DS))
    if kind == "n_get":
        return b"".join(W.fragment(ctx, W.rq("N-GET-RQ", msg_id, C.PRINTER, False, extra={W.T_REQUESTED_INSTANCE: inst}), None))
    if kind == "n_set":
        return b"".join(W.fragment(ctx, W.rq("N-SET-RQ", msg_id, C.BASIC_FILM_SESSION, True, extra={W.T_REQUESTED_INSTANCE: "1.2.3.4"}), DS))
    if kind == "n_action":
        return b"".join(W.fragment(ctx, W.rq("N-ACTION-RQ", msg_id, C.BASIC_FILM_SESSION, True, extra={W.T_REQUESTED_INSTANCE: "1.2.3.4", W.T_ACTION_TYPE: 1}), DS))
    if kind == "n_create":
        return b"".join(W.fragment(ctx, W.rq("N-CREATE-RQ", msg_id, C.BASIC_FILM_SESSION, True, extra={W.T_AFFECTED_INSTANCE: "1.2.3.4"}), DS))
    if kind == "n_delete":
        return b"".join(W.fragment(ctx, W.rq("N-DELETE-RQ", msg_id, C.BASIC_FILM_SESSION, False, extra={W.T_REQUESTED_INSTANCE: "1.2.3.4"}), None))
    raise ValueError(kind)


def _mk(role, kind, x, sched=None, net=None, data_home=False):
    d = {"role": role, "kind": kind, "ctx": x, "sched": sched or {"switch_pct": 20}, "net": net or {"seg": "whole"}}
    if data_home:
        d["data_home"] = True     # the data-set PDVs travel under the accepted context of the request's SOP class
    return d


HAS_DATASET = ("store", "find", "get", "move", "n_event_report", "n_set", "n_action", "n_create")


def directed(tier):
    ids = list(range(256)) if tier == "thorough" else QUICK_IDS
    out = []
    for kind in REQS:
        for x in ids:
            out.append(_mk("acceptor", kind, x))
    for x in ids:
        out.append(_mk("requestor", "store", x))
    # command set on an unaccepted context, data set on the accepted context of that SOP class
    for kind in HAS_DATASET:
        for x in (0, 2, 15, 17, 255) + ((HOME[kind] + 2,) if HOME[kind] + 2 != 15 else ()):
            out.append(_mk("acceptor", kind, x, data_home=True))
    for x in (0, 2, 5, 255):
        out.append(_mk("requestor", "store", x, data_home=True))
    return out


def budget(tier):
    if tier == "thorough":
        return {"runs": 600, "wall": 2400, "selftest": 32, "shrink_s": 20}
    return {"runs": 60, "wall": 300, "selftest": 12, "shrink_s": 15}


def gen(rng, idx, tier):
    role = "requestor" if rng.randrange(6) == 0 else "acceptor"
    kind = "store" if role == "requestor" else rng.choice(REQS)
    return _mk(role, kind, rng.choice(QUICK_IDS + [rng.randrange(256)]), sched=C.gen_sched(rng), net=C.gen_net(rng),
               data_home=kind in HAS_DATASET and rng.randrange(3) == 0)


def shrink(sc):
    if sc["sched"] != {"switch_pct": 20} or sc["net"] != {"seg": "whole"}:
        d = dict(sc)
        d["sched"] = {"switch_pct": 20}
        d["net"] = {"seg": "whole"}
        yield d


def execute(sc, ctx):
    from pynetdicom import evt, build_role

    sim = ctx.sim
    inv = ctx.obs["invoked"] = []

    def mk(name, ret):
        def h(event):
            cid = event.context.context_id
            sim.record("handler", op=name, ctx_id=cid, msg_id=getattr(event.request, "MessageID", None))
            inv.append((name, cid))
            return ret() if callable(ret) else ret
        return h

    def gen_h(name, items):
        def h(event):
            cid = event.context.context_id
            sim.record("handler", op=name, ctx_id=cid, msg_id=event.request.MessageID)
            inv.append((name, cid))
            for it in items:
                yield it
        return h

    hh = [(evt.EVT_C_ECHO, mk("echo", 0)), (evt.EVT_C_STORE, mk("store", 0)),
          (evt.EVT_C_FIND, gen_h("find", [(0xFF00, C.small_ds(0))])),
          (evt.EVT_C_GET, gen_h("get", [0])), (evt.EVT_C_MOVE, gen_h("move", [("127.0.0.1", 11999), 0])),
          (evt.EVT_N_EVENT_REPORT, mk("n_event_report", lambda: (0, None))), (evt.EVT_N_GET, mk("n_get", lambda: (0, C.small_ds(0)))),
          (evt.EVT_N_SET, mk("n_set", lambda: (0, C.small_ds(0)))), (evt.EVT_N_ACTION, mk("n_action", lambda: (0, None))),
          (evt.EVT_N_CREATE, mk("n_create", lambda: (0, C.small_ds(0)))), (evt.EVT_N_DELETE, mk("n_delete", 0))]
    if sc["role"] == "acceptor":
        ae = ctx.make_ae("ANY-SCP", acse=0.3, dimse=0.3, network=0.3)
        for _, u in PROPOSED:
            if u != C.MR:
                ae.add_supported_context(u)
        ctx.start_server(ae, handlers=hh)
        p = RawPeer(ctx)
        ac = p.associate([(i, u, [C.IVLE]) for i, u in PROPOSED], timeout=1.0)
        ctx.obs["ac"] = isinstance(ac, dict)
        if not isinstance(ac, dict):
            return
        ctx.obs["accepted"] = sorted(x["id"] for x in ac["results"] if x["result"] == 0)
        p.send(request_bytes(sc["kind"], sc["ctx"], data_ctx=HOME[sc["kind"]] if sc.get("data_home") else None))
        ctx.obs["peer_saw"] = p.drain(0.5)
        ctx.obs["peer_pdus"] = [t for t, _ in p.received]
        p.close()
    else:
        # real requestor runs a C-GET; the scripted acceptor answers with a C-STORE sub-operation on context x
        p = RawPeer(ctx)
        p.listen(11113)

        def peer():
            if p.accept(timeout=2.0) is None:
                return
            rq = p.recv_pdu(1.0)
            if isinstance(rq, str):
                return
            d = W.parse_associate(rq[1])
            # accept PR-GET (scu) and CT (with the requestor as SCP via role selection); reject MR
            results = []
            for pc in d["pcs"]:
                ab = pc["abstract"][0].decode()
                results.append((pc["id"], 0 if ab != C.MR else 3, pc["transfer"][0] if ab != C.MR else None))
            roles = [W.role_item(C.CT, 1, 1), W.role_item(C.MR, 1, 1)]
            p.send(W.associate_ac(results=results, extra_user=roles))
            ctx.obs["accepted"] = sorted(i for i, res, _ in results if res == 0)
            got = p.recv_until((4,), 1.0)      # the C-GET request
            if isinstance(got, str):
                return
            p.recv_pdu(0.05)
            ct_id = next((i for i, res, _ in results if res == 0 and any(pc["id"] == i and pc["abstract"][0].decode() == C.CT for pc in d["pcs"])), None)
            p.send(request_bytes("store", sc["ctx"], data_ctx=ct_id if sc.get("data_home") else None))
            ctx.obs["peer_saw"] = p.drain(0.4)
            ctx.obs["peer_pdus"] = [t for t, _ in p.received]
            p.close()

        pt = ctx.spawn(peer, "peer")
        ae = ctx.make_ae("SCU", acse=0.5, dimse=0.4, network=0.6)
        ae.add_requested_context(C.PR_GET)
        ae.add_requested_context(C.CT)
        ae.add_requested_context(C.MR)
        assoc = ctx.associate(ae, port=11113, handlers=hh, ext_neg=[build_role(C.CT, scp_role=True), build_role(C.MR, scp_role=True)])
        ctx.obs["ac"] = assoc.is_established
        if assoc.is_established:
            ctx.obs["req_accepted"] = sorted(cx.context_id for cx in assoc.accepted_contexts)
            res = []
            for st, ds in assoc.send_c_get(C.small_ds(0), C.PR_GET):
                res.append(st.Status if st and "Status" in st else "empty")
            ctx.obs["get_result"] = res
        pt.join()
        p.lsock.close()
    ctx.wait_until(lambda: not any(a.is_alive() or a.dul.is_alive() for a in ctx.assocs.values()), 2.0, step=0.005)


def _responses(sc, r):
    """DIMSE messages the real side wrote on the connection after the probe."""
    cid = 0
    mine = "s2c" if sc["role"] == "acceptor" else "c2s"
    pdus, _ = C.conn_pdus(r, cid, mine)
    msgs, _ = W.messages(C.as_frames(pdus))
    return msgs, pdus


def check(sc, r):
    out, dead = L.thread_deaths(ID, r)
    if r.failure:
        out.append(C.v("liveness", "C19/run-%s" % r.failure, "run ended %s" % r.failure))
        return out
    if not r.obs.get("ac"):
        return out
    acc = set(r.obs.get("accepted") or [])
    x = sc["ctx"]
    if x in acc:
        return out
    where = "%s/%s" % (sc["role"], sc["kind"])
    inv = [(n, c) for n, c in r.obs.get("invoked", []) if not (sc["role"] == "requestor" and n == "get")]
    if inv:
        out.append(C.v("no-handler", "C19/handler-invoked/%s" % where, "request on unaccepted context %d reached handler(s) %s (accepted %s)" % (x, inv, sorted(acc))))
    msgs, pdus = _responses(sc, r)
    for m in msgs:
        if not m.command or not m.is_response:
            continue
        if m.command.get(W.T_MESSAGE_ID_RSP) != 7:
            continue
        st = m.command.get(W.T_STATUS)
        if st is None:
            continue
        cat = "success" if st == 0 else ("pending" if st in (0xFF00, 0xFF01) else ("warning" if (st == 1 or st == 0x0107 or st == 0x0116 or (st & 0xF000) == 0xB000) else None))
        if cat:
            out.append(C.v("no-valid-answer", "C19/answered-as-valid/%s/%s" % (where, cat), "request on unaccepted context %d was answered with status 0x%04X on context %s" % (x, st, m.ctx)))
    # the association must end aborted: the real side wrote A-ABORT (or at least closed without releasing)
    lab = "acc0" if sc["role"] == "acceptor" else "req0"
    st = r.final.get(lab)
    wrote_abort = any(p["type"] == 7 for p in pdus)
    if st and "error" not in st and lab not in dead:
        # (the A-ABORT PDU itself may lose the race against the reactor closing the socket; the peer then sees a closed
        # connection, which the property counts as ended/aborted as well)
        if not st["aborted"]:
            out.append(C.v("aborted", "C19/not-aborted/%s" % where, "after a request on unaccepted context %d the association did not end aborted: %s, A-ABORT on wire: %s" % (x, st, wrote_abort)))
    return out


def nontrivial(sc, r):
    acc = set(r.obs.get("accepted") or [])
    if r.obs.get("ac") and sc["ctx"] not in acc:
        return (sc["role"], sc["kind"], sc["ctx"])
    return None


def probes(sc, r):
    acc = set(r.obs.get("accepted") or [])
    x = sc["ctx"]
    kind = "accepted" if x in acc else ("rejected" if x == 15 else ("even" if x % 2 == 0 else "never-proposed"))
    return {"ctx_" + kind: True, "kind_" + sc["kind"]: True, "role_" + sc["role"]: True,
            "handler_invoked_on_accepted": bool(x in acc and r.obs.get("invoked"))}


def sample(sc, r):
    msgs, pdus = _responses(sc, r)
    return {"scenario": {k: sc[k] for k in ("role", "kind", "ctx")}, "accepted": r.obs.get("accepted"),
            "invoked": r.obs.get("invoked"), "real_side_wrote": [W.PDU_NAMES.get(p["type"]) for p in pdus],
            "responses": [m.summary() for m in msgs if m.is_response], "final": r.final}
