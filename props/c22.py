"""C22 - C-GET and C-MOVE sub-operation counters stay consistent."""
from props import common as C
from props import lifecycle as L
from props import scp as S
from ref import wire as W

ID = "C22"
LEVEL = "exploration"
TECHNIQUE = "deterministic simulation of real SCU, SCP and C-MOVE destination AEs: seeded announced counts, handler yield sequences and C-STORE sub-operation outcomes; counter arithmetic oracle over every response on the wire"
RULE = (
    "a case = one C-GET or C-MOVE request to a real SCP whose handler announces N sub-operations (0-6, or not an int) and yields "
    "a seeded sequence of valid datasets, non-datasets, empty datasets and statuses of every category, more or fewer than N, "
    "while the real C-STORE SCP (the requestor for C-GET, a third AE for C-MOVE) answers each sub-operation with success, "
    "warning, failure or an exception; checked on the wire for every Pending response: remaining+completed+failed+warning = N, "
    "remaining non-increasing, others non-decreasing; final: completed+failed+warning <= N and the status rule; non-trivial = "
    "at least one sub-operation was attempted and something other than plain success happened (failure, warning, invalid "
    "yield, count mismatch); distinct = distinct (operation, announced count, yield kinds, store outcomes)"
    " The storage SCP may also answer a sub-operation with a status outside the Storage service's table or with a Cancel / Pending code."
)


def budget(tier):
    if tier == "thorough":
        return {"runs": 12000, "wall": 2400, "selftest": 32, "shrink_s": 60}
    return {"runs": 480, "wall": 300, "selftest": 12, "shrink_s": 30}


def gen(rng, idx, tier):
    op = rng.choice(["get", "move"])
    n = rng.randrange(0, 7)
    k = rng.choice([n, n, n, n, max(0, n - 1), n + 1, n + 2])
    items = []
    for i in range(k):
        x = rng.randrange(100)
        if x < 62:
            items.append({"status": {"t": "int", "v": 0xFF00}, "ds": "ds"})
        elif x < 72:
            items.append({"status": {"t": "int", "v": 0xFF00}, "ds": rng.choice(["str", "none", "empty"])})
        elif x < 80:
            items.append({"status": {"t": "int", "v": rng.choice([0xA701, 0xA702, 0xA900, 0xC000, 0xB000, 0xFE00, 0x0000])}, "ds": rng.choice(["none", "ds"])})
        elif x < 86:
            items.append({"status": S.gen_status_spec(rng, op), "ds": "ds"})
        elif x < 93:
            items.append({"raise": True})
        else:
            items.append({"bare": rng.choice([0xFF00, "x"])})
    beh = {"mode": "gen", "count": n if rng.randrange(12) else rng.choice(["str", None, -1]), "items": items,
           "store": [rng.choice(["ok", "ok", "ok", "warn", "fail", "raise", rng.choice(["odd:4660", "odd:53248", "odd:512", "odd:65280", "odd:65024"])])
                     for _ in range(k + 1)]}
    if op == "move":
        beh["dest"] = "ok" if rng.randrange(10) else rng.choice(["none", "refused", "bad"])
    return {"op": op, "beh": beh, "msg_id": rng.choice([0, 1, 5, 400]), "max_pdu": 16382,
            "sched": C.gen_sched(rng, fine_pct=10), "net": C.gen_net(rng)}


def shrink(sc):
    import copy

    for i in range(len(sc["beh"]["items"])):
        d = copy.deepcopy(sc)
        del d["beh"]["items"][i]
        yield d
    if isinstance(sc["beh"]["count"], int) and sc["beh"]["count"] > 0:
        d = copy.deepcopy(sc)
        d["beh"]["count"] -= 1
        yield d
    if any(x != "ok" for x in sc["beh"]["store"]):
        for i, x in enumerate(sc["beh"]["store"]):
            if x != "ok":
                d = copy.deepcopy(sc)
                d["beh"]["store"][i] = "ok"
                yield d
    if sc["net"] != {"seg": "whole"}:
        d = copy.deepcopy(sc)
        d["net"] = {"seg": "whole"}
        yield d
    if sc["sched"].get("line_gap") or sc["sched"].get("sleep_jitter_pct"):
        d = copy.deepcopy(sc)
        d["sched"] = {"switch_pct": sc["sched"].get("switch_pct", 30)}
        yield d


execute = S.execute


def _kinds(sc):
    out = []
    for it in sc["beh"]["items"]:
        if it.get("raise"):
            out.append("raise")
        elif "bare" in it:
            out.append("bare")
        elif it["status"]["t"] == "int" and it["status"]["v"] == 0xFF00:
            out.append("pending-" + it["ds"])
        else:
            out.append("status-%s" % it["status"]["t"])
    return out


def check(sc, r):
    out, dead = L.thread_deaths(ID, r)
    if r.failure:
        out.append(C.v("liveness", "C22/run-%s" % r.failure, "run ended %s" % r.failure))
        return out
    if not r.obs.get("established"):
        return out
    N = sc["beh"]["count"]
    if not isinstance(N, int) or N < 0:
        return out   # no valid announced count: nothing to be consistent with
    rq, rsps, ends, s2c, _ = S.request_and_responses(sc, r)
    if rq is None:
        return out
    op = sc["op"]
    infos = [S.rsp_info(m, s2c) for m in rsps]
    prev = None
    for i, x in enumerate(infos):
        c = [x["remaining"], x["completed"], x["failed"], x["warning"]]
        if S.is_pending(x["status"]):
            if any(v is None for v in c):
                out.append(C.v("pending-sum", "C22/pending-missing-counter/%s" % op, "Pending response %d lacks a sub-operation counter: %s" % (i, c)))
                break
            if sum(c) != N:
                kinds = _kinds(sc)
                cause = "invalid-yield" if any(k in ("pending-str",) for k in kinds) else "other"
                out.append(C.v("pending-sum", "C22/pending-sum/%s/%s/%+d" % (op, cause, sum(c) - N),
                               "Pending response %d: remaining+completed+failed+warning = %d+%d+%d+%d = %d, announced %d (yields %s)" % (i, c[0], c[1], c[2], c[3], sum(c), N, kinds)))
                break
            if prev is not None:
                if c[0] > prev[0]:
                    out.append(C.v("monotone", "C22/remaining-increased/%s" % op, "remaining went from %d to %d" % (prev[0], c[0])))
                    break
                if any(c[j] < prev[j] for j in (1, 2, 3)):
                    out.append(C.v("monotone", "C22/counter-decreased/%s" % op, "counters went from %s to %s" % (prev, c)))
                    break
            prev = c
        else:
            done = [v or 0 for v in c[1:]]
            if sum(done) > N:
                out.append(C.v("final-sum", "C22/final-sum-exceeds/%s" % op, "final response: completed+failed+warning = %d > announced %d" % (sum(done), N)))
            # status rule, where pynetdicom itself computes the final status (the handler did not end the operation
            # with its own status, raise, cancel or an invalid item)
            own = all(k == "pending-ds" for k in _kinds(sc)) and sc["beh"].get("dest", "ok") == "ok" and not sc.get("interfere")
            if own and N > 0:
                comp, fail, warn = done
                st = x["status"]
                if fail == 0 and warn == 0:
                    want = (0x0000,)
                elif fail == N:
                    want = (0xA702,)
                else:
                    want = (0xB000,)
                if st not in want and not any(o.startswith("odd:") for o in [h["outcome"] for h in r.hist if h["kind"] == "handler" and h["op"] == "store_sub"]):
                    out.append(C.v("final-status", "C22/final-status/%s/0x%04x-for-c%d-f%d-w%d-of-%d" % (op, st, comp, fail, warn, N) if False else "C22/final-status/%s/0x%04x" % (op, st),
                                   "final status 0x%04X with completed=%d failed=%d warning=%d of %d; expected %s" % (st, comp, fail, warn, N, [hex(w) for w in want])))
                # failed list = instances whose sub-operation failed
                outs = [h["outcome"] for h in r.hist if h["kind"] == "handler" and h["op"] == "store_sub"]
                nfail = len([o for o in outs if o in ("fail", "raise")])
                odd = any(o.startswith("odd:") for o in outs)   # an undefined sub-operation status: not judged as failed / not failed
                if fail != nfail and len(outs) == len(sc["beh"]["items"]) and not odd:
                    out.append(C.v("failed-count", "C22/failed-count/%s" % op, "final reports %d failed, %d sub-operations failed at the store SCP (%s)" % (fail, nfail, outs)))
                if x["ds_len"] and fail and not odd:
                    uids = _failed_uids(x["dataset"])
                    want_uids = sorted("1.2.3.4.%d" % (i + 1) for i, o in enumerate(outs) if o in ("fail", "raise"))
                    if uids is not None and sorted(uids) != want_uids:
                        out.append(C.v("failed-list", "C22/failed-list/%s" % op, "FailedSOPInstanceUIDList %s, sub-operations failed for %s" % (sorted(uids), want_uids)))
    return out


def _failed_uids(ds_bytes):
    """(0008,0058) FailedSOPInstanceUIDList from an Implicit VR LE data set."""
    import struct

    off = 0
    while off + 8 <= len(ds_bytes):
        g, e, ln = struct.unpack("<HHL", ds_bytes[off:off + 8])
        v = ds_bytes[off + 8:off + 8 + ln]
        if (g, e) == (8, 0x58):
            s = v.rstrip(b"\x00 ").decode("ascii", "replace")
            return [u for u in s.split("\\") if u] if s else []
        off += 8 + ln
    return None


def nontrivial(sc, r):
    outs = [h["outcome"] for h in r.hist if h["kind"] == "handler" and h["op"] == "store_sub"]
    kinds = _kinds(sc)
    if outs and (any(o != "ok" for o in outs) or any(k != "pending-ds" for k in kinds) or len(kinds) != sc["beh"]["count"]):
        return (sc["op"], sc["beh"]["count"], tuple(kinds), tuple(outs))
    return None


def probes(sc, r):
    outs = [h["outcome"] for h in r.hist if h["kind"] == "handler" and h["op"] == "store_sub"]
    d = {"op_" + sc["op"]: True, "suboperations": len(outs)}
    for o in set(outs):
        d["store_" + o] = True
    for k in set(_kinds(sc)):
        d["yield_" + k] = True
    return d


def sample(sc, r):
    if not r.obs.get("established") or r.failure:
        return {"scenario": sc}
    rq, rsps, ends, s2c, _ = S.request_and_responses(sc, r)
    return {"op": sc["op"], "announced": sc["beh"]["count"], "yields": _kinds(sc), "store_outcomes": sc["beh"]["store"],
            "responses": [{k: v for k, v in S.rsp_info(m, s2c).items() if k in ("status", "remaining", "completed", "failed", "warning", "ds_len")} for m in rsps]}
