"""C07 - a peer's release request is always answered with a release response."""
from dsim.rawpeer import RawPeer
from props import common as C
from ref import wire as W

ID = "C07"
LEVEL = "exploration"
TECHNIQUE = "deterministic simulation: seeded schedules x release-arrival points, wire-tap oracle"
RULE = (
    "a case = one simulated association (real acceptor AE; requestor is a real AE that abandons its "
    "response iterator and calls release(), or a scripted byte peer) in which A-RELEASE-RQ is delivered at "
    "a seeded point relative to a C-FIND/C-GET handler producing k results; non-trivial = the request was "
    "delivered while the handler was active or the reactor was otherwise busy; distinct = distinct run digests"
)
STUBS = ["scripted RawPeer (requestor side) in the 'raw' half of the cases"]
ASSUMPTIONS = ["fault-free network (segmentation, delay and short writes only)"]


def budget(tier):
    if tier == "thorough":
        return {"runs": 6000, "wall": 1500, "selftest": 48, "shrink_s": 60}
    return {"runs": 360, "wall": 240, "selftest": 16, "shrink_s": 30}


def directed(tier):
    """Every arrival point of the release over the yield indices for k <= 4."""
    out = []
    for op in ("find", "get"):
        for k in range(0, 5 if tier == "thorough" else 3):
            for consume in range(0, k + 2):
                out.append(_mk(op, k, "real", consume, 0.0, [0.002] * (k + 1), {"switch_pct": 30}, {"seg": "whole"}))
    for k in range(0, 4):
        for j in range(0, 2 * k + 3):
            out.append(_mk("find", k, "raw", 0, 0.0015 * j, [0.003] * (k + 1), {"switch_pct": 30}, {"seg": "whole"}))
    out.append(_mk("idle", 0, "real", 0, 0.0, [], {"switch_pct": 30}, {"seg": "whole"}))
    out.append(_mk("idle", 0, "raw", 0, 0.01, [], {"switch_pct": 30}, {"seg": "whole"}))
    out.append(_mk("echo", 0, "real", 0, 0.0, [], {"switch_pct": 30}, {"seg": "whole"}))
    return out


def _mk(op, k, peer, consume, delay, sleeps, sched, net):
    return {"op": op, "k": k, "peer": peer, "consume": consume, "delay": delay, "sleeps": sleeps,
            "sched": sched, "net": net}


def gen(rng, idx, tier):
    op = rng.choice(["find", "find", "get", "idle", "echo"])
    k = rng.randrange(0, 5)
    peer = rng.choice(["real", "raw"]) if op in ("find", "idle") else "real"
    sleeps = [rng.choice([0.0, 0.0005, 0.002, 0.01]) for _ in range(k + 1)]
    consume = rng.randrange(0, k + 2)
    delay = rng.choice([0.0, 0.0005, 0.001, 0.003, 0.008, 0.02]) * rng.random()
    return _mk(op, k, peer, consume, round(delay, 6), sleeps, C.gen_sched(rng), C.gen_net(rng))


def shrink(sc):
    if sc["k"] > 0:
        d = dict(sc)
        d["k"] = sc["k"] - 1
        d["sleeps"] = sc["sleeps"][: d["k"] + 1]
        d["consume"] = min(sc["consume"], d["k"] + 1)
        yield d
    if sc["consume"] > 0:
        d = dict(sc)
        d["consume"] = sc["consume"] - 1
        yield d
    if sc["net"].get("seg") != "whole" or sc["net"].get("short_write_pct"):
        d = dict(sc)
        d["net"] = {"seg": "whole"}
        yield d
    if sc["sched"].get("line_gap") or sc["sched"].get("sleep_jitter_pct"):
        d = dict(sc)
        d["sched"] = {"switch_pct": sc["sched"].get("switch_pct", 30)}
        yield d
    if any(sc["sleeps"]):
        d = dict(sc)
        d["sleeps"] = [0.0 for _ in sc["sleeps"]]
        yield d


def execute(sc, ctx):
    from pynetdicom import evt, build_role
    from pynetdicom.sop_class import Verification

    sim = ctx.sim
    k = sc["k"]
    sleeps = sc["sleeps"]
    total = sum(sleeps) + 1.0

    def handle_find(event):
        sim.record("handler", op="find", phase="start")
        for i in range(k):
            ctx.sleep(sleeps[i])
            sim.record("handler", op="find", phase="yield", i=i)
            yield 0xFF00, C.small_ds(i)
        if sleeps:
            ctx.sleep(sleeps[k])
        sim.record("handler", op="find", phase="end")

    def handle_get(event):
        sim.record("handler", op="get", phase="start")
        yield k
        for i in range(k):
            ctx.sleep(sleeps[i])
            sim.record("handler", op="get", phase="yield", i=i)
            yield 0xFF00, C.store_ds(i)
        if sleeps:
            ctx.sleep(sleeps[k])
        sim.record("handler", op="get", phase="end")

    def handle_store(event):
        sim.record("handler", op="store", phase="start")
        return 0x0000

    scp = ctx.make_ae("SCP", acse=total + 1, dimse=total + 1, network=total + 2)
    scp.add_supported_context(Verification)
    scp.add_supported_context(C.PR_FIND)
    scp.add_supported_context(C.PR_GET)
    scp.add_supported_context(C.CT, scu_role=True, scp_role=True)
    ctx.start_server(scp, handlers=[(evt.EVT_C_FIND, handle_find), (evt.EVT_C_GET, handle_get)])

    if sc["peer"] == "raw":
        p = RawPeer(ctx)
        ac = p.associate([(1, C.VERIFICATION, [C.IVLE]), (3, C.PR_FIND, [C.IVLE])], timeout=2.0)
        ctx.obs["raw_ac"] = isinstance(ac, dict)
        if not isinstance(ac, dict):
            return
        if sc["op"] == "find":
            ds = b"\x08\x00\x52\x00\x08\x00\x00\x00PATIENT "
            for pd in W.fragment(3, W.rq("C-FIND-RQ", 1, C.PR_FIND, True), ds):
                p.send(pd)
        ctx.sleep(sc["delay"])
        sim.record("release_sent", by="raw")
        p.send(W.release_rq())
        got = p.recv_until((6, 7), timeout=total + 0.5)
        ctx.obs["raw_got"] = got if isinstance(got, str) else got[0]
        p.close()
        ctx.sleep(0.05)
        return

    scu = ctx.make_ae("SCU", acse=total, dimse=total, network=total + 2)
    scu.add_requested_context(Verification)
    scu.add_requested_context(C.PR_FIND)
    scu.add_requested_context(C.PR_GET)
    scu.add_requested_context(C.CT)
    assoc = ctx.associate(scu, handlers=[(evt.EVT_C_STORE, handle_store)], ext_neg=[build_role(C.CT, scp_role=True)])
    ctx.obs["established"] = assoc.is_established
    if not assoc.is_established:
        return
    if sc["op"] == "echo":
        assoc.send_c_echo()
    elif sc["op"] in ("find", "get"):
        ident = C.small_ds(0)
        it = assoc.send_c_find(ident, C.PR_FIND) if sc["op"] == "find" else assoc.send_c_get(ident, C.PR_GET)
        n = 0
        for n in range(sc["consume"]):
            try:
                st, ds = next(it)
            except StopIteration:
                break
            if not st or st.Status not in (0xFF00, 0xFF01):
                break
    if sc["delay"]:
        ctx.sleep(sc["delay"])
    sim.record("release_sent", by="real")
    assoc.release()
    ctx.obs["req"] = ctx.assoc_state(assoc)


def _analyse(sc, r):
    """Locate the release request / response / abort on the acceptor's wire."""
    c2s, _ = C.conn_pdus(r, 0, "c2s")
    s2c, _ = C.conn_pdus(r, 0, "s2c")
    rq = next((p for p in c2s if p["type"] == 5), None)
    rp = next((p for p in s2c if p["type"] == 6), None)
    ab = next((p for p in s2c if p["type"] == 7), None)
    ac = next((p for p in s2c if p["type"] == 2), None)
    return rq, rp, ab, ac, c2s, s2c


def check(sc, r):
    out = C.generic_thread_death(r, ID)
    if r.failure:
        out.append(C.v("liveness", "C07/run-%s" % r.failure, "run ended %s: %s" % (r.failure, r.failure_info)))
        return out
    rq, rp, ab, ac, c2s, s2c = _analyse(sc, r)
    if ac is None or rq is None:
        return out
    # the acceptor's side of the story
    acc_rel = [h for h in r.evts("acc0", "EVT_RELEASED")]
    acc_ab = [h for h in r.evts("acc0", "EVT_ABORTED")]
    got_rq = [h for h in r.evts("acc0", "EVT_PDU_RECV") if h["pdu"] == "A_RELEASE_RQ"]
    if not got_rq:
        return out  # never delivered to pynetdicom (closed before)
    if ab is not None:
        return out  # pynetdicom itself aborted: outside the property
    phase = _phase(sc, r)
    where = "%s/%s" % (sc["op"], ("subop-pending" if phase.get("subop_pending") else "handler") if phase["active"] else "idle")
    if rp is None:
        out.append(C.v("release-answered", "C07/no-release-rp/%s" % where,
                       "A-RELEASE-RQ delivered (seq %s, phase %s) but no A-RELEASE-RP written; acceptor events: released=%d aborted=%d" % (
                           rq["seq"], phase, len(acc_rel), len(acc_ab))))
        return out
    if not acc_rel or acc_ab:
        out.append(C.v("both-released", "C07/acceptor-not-released/%s" % where,
                       "A-RELEASE-RP written but acceptor outcome is released=%d aborted=%d" % (len(acc_rel), len(acc_ab))))
    if sc["peer"] == "real":
        st = r.obs.get("req")
        if st is not None and (not st["released"] or st["aborted"]):
            out.append(C.v("both-released", "C07/requestor-not-released/%s" % where, "requestor state %s" % (st,)))
        if not r.evts("req0", "EVT_RELEASED"):
            out.append(C.v("both-released", "C07/requestor-no-event/%s" % where, "EVT_RELEASED did not fire on the requestor"))
    return out


def _phase(sc, r):
    got = [h for h in r.evts("acc0", "EVT_PDU_RECV") if h["pdu"] == "A_RELEASE_RQ"]
    if not got:
        return {"active": False, "yields": None}
    s = got[0]["seq"]
    hs = [h for h in r.hist if h["kind"] == "handler" and h["op"] in ("find", "get")]
    start = next((h["seq"] for h in hs if h["phase"] == "start"), None)
    end = next((h["seq"] for h in hs if h["phase"] == "end"), None)
    ny = len([h for h in hs if h["phase"] == "yield" and h["seq"] < s])
    active = start is not None and start < s and (end is None or s < end)
    # is the SCP waiting for the response to a C-STORE sub-operation it sent?
    sent = [h["seq"] for h in r.evts("acc0", "EVT_DIMSE_SENT") if h["msg"] == "C_STORE_RQ" and h["seq"] < s]
    got = [h["seq"] for h in r.evts("acc0", "EVT_DIMSE_RECV") if h["msg"] == "C_STORE_RSP" and h["seq"] < s]
    return {"active": active, "yields": ny, "subop_pending": len(sent) > len(got)}


def nontrivial(sc, r):
    ph = _phase(sc, r)
    if ph["active"]:
        return r.digest
    return None


def probes(sc, r):
    ph = _phase(sc, r)
    d = {"release_delivered": ph["yields"] is not None, "release_during_handler": ph["active"]}
    if ph["active"]:
        d["release_after_yield_%d_%s" % (ph["yields"], sc["op"])] = True
    rq, rp, ab, ac, _, _ = _analyse(sc, r)
    d["acceptor_wrote_abort"] = ab is not None
    d["release_rp_seen"] = rp is not None
    return d


def sample(sc, r):
    rq, rp, ab, ac, c2s, s2c = _analyse(sc, r)
    return {
        "scenario": sc,
        "acceptor_wire_in": [W.PDU_NAMES.get(p["type"], p["type"]) for p in c2s],
        "acceptor_wire_out": [W.PDU_NAMES.get(p["type"], p["type"]) for p in s2c],
        "phase": _phase(sc, r),
        "steps": r.steps, "virtual_time": round(r.now, 4),
    }
