"""C07 - a peer's release request is always answered with a release response."""
from dsim.rawpeer import RawPeer
from props import common as C
from ref import wire as W

ID = "C07"
LEVEL = "exploration"
TECHNIQUE = "deterministic simulation: seeded schedules x release-arrival points, wire-tap oracle"
RULE = (
    "a case = one simulated association (real acceptor AE; requestor is a real AE that abandons its "
    "response iterator and calls release(), or a scripted byte peer) in which A-RELEASE-RQ is delivered at "
    "a seeded point relative to a C-FIND/C-GET/C-MOVE handler producing k results (C-MOVE with a third real AE as "
    "destination of the sub-operations), after 0-2 complete earlier operations (between DIMSE messages), while idle, or "
    "while the acceptor's reactor is paused by a local send_c_echo() of an acceptor-side user thread; non-trivial = the "
    "request was delivered while the handler was active or the reactor was otherwise busy; distinct = distinct run digests"
)
STUBS = ["scripted RawPeer (requestor side) in the 'raw' half of the cases"]
ASSUMPTIONS = ["fault-free network (segmentation, delay and short writes only)"]


def budget(tier):
    if tier == "thorough":
        return {"runs": 6000, "wall": 1500, "selftest": 48, "shrink_s": 60}
    return {"runs": 360, "wall": 240, "selftest": 16, "shrink_s": 30}


def directed(tier):
    """Every arrival point of the release over the yield indices for k <= 4."""
    out = []
    for op in ("find", "get", "move"):
        for k in range(0, 5 if tier == "thorough" else 3):
            for consume in range(0, k + 2):
                out.append(_mk(op, k, "real", consume, 0.0, [0.002] * (k + 1), {"switch_pct": 30}, {"seg": "whole"}))
    for k in (1, 2):
        for consume in range(0, k + 1):
            d = _mk("get", k, "real", consume, 0.0, [0.002] * (k + 1), {"switch_pct": 30}, {"seg": "whole"})
            d["scp_dimse"] = 0.1
            out.append(d)
    for pre in (["echo"], ["store"], ["find_full"], ["echo", "store"]):
        out.append(_mk("idle", 0, "real", 0, 0.0, [], {"switch_pct": 30}, {"seg": "whole"}, pre=pre))
        out.append(_mk("find", 2, "real", 1, 0.0, [0.002] * 3, {"switch_pct": 30}, {"seg": "whole"}, pre=pre))
    for j in range(0, 8):
        out.append(_mk("acc_send", 0, "real", 0, 0.0005 * j, [], {"switch_pct": 30}, {"seg": "whole"}, acc_delay=0.001))
    # the acceptor-side request is answered (Success / Warning / Failure statuses) well before the release request arrives
    for what in ("echo", "ner"):
        for status in (0x0000, 0x0110, 0x0113, 0x0116, 0xC000, 0xB000, 0x0001):
            out.append(_mk("acc_send", 0, "real", 0, 0.02, [], {"switch_pct": 30}, {"seg": "whole"}, acc_delay=0.0, acc_what=what, acc_status=status))
    for k in range(0, 4):
        for j in range(0, 2 * k + 3):
            out.append(_mk("find", k, "raw", 0, 0.0015 * j, [0.003] * (k + 1), {"switch_pct": 30}, {"seg": "whole"}))
    out.append(_mk("idle", 0, "real", 0, 0.0, [], {"switch_pct": 30}, {"seg": "whole"}))
    out.append(_mk("idle", 0, "raw", 0, 0.01, [], {"switch_pct": 30}, {"seg": "whole"}))
    for cap in (128, 512):
        for j in range(0, 4):
            out.append(_slow_reader(_mk("find", 4, "raw", 0, 0.002 * j, [0.001] * 5, {"switch_pct": 30}, {"seg": "whole"}), cap, 0.15, 2.0))
    out.append(_mk("echo", 0, "real", 0, 0.0, [], {"switch_pct": 30}, {"seg": "whole"}))
    return out


def _mk(op, k, peer, consume, delay, sleeps, sched, net, pre=(), acc_delay=0.0, acc_what="echo", acc_status=0x0000):
    d = {"op": op, "k": k, "peer": peer, "consume": consume, "delay": delay, "sleeps": sleeps,
         "sched": sched, "net": net}
    if pre:
        d["pre"] = list(pre)
    if op == "acc_send":
        d["acc_delay"] = acc_delay
        d["acc_what"] = acc_what      # echo | ner (N-EVENT-REPORT, the storage-commitment pattern)
        d["acc_status"] = acc_status  # status the requestor's handler answers the local request with
    return d


def gen(rng, idx, tier):
    op = rng.choice(["find", "find", "get", "move", "idle", "echo", "acc_send"])
    k = rng.randrange(0, 5)
    peer = rng.choice(["real", "raw"]) if op in ("find", "idle") else "real"
    sleeps = [rng.choice([0.0, 0.0005, 0.002, 0.01]) for _ in range(k + 1)]
    consume = rng.randrange(0, k + 2)
    delay = rng.choice([0.0, 0.0005, 0.001, 0.003, 0.008, 0.02]) * rng.random()
    pre = []
    if peer == "real" and rng.randrange(3) == 0:
        pre = [rng.choice(["echo", "store", "find_full"]) for _ in range(rng.randrange(1, 3))]
    acc_delay = round(rng.choice([0.0, 0.0005, 0.001, 0.003]) * rng.random(), 6)
    sc = _mk(op, k, peer, consume, round(delay, 6), sleeps, C.gen_sched(rng), C.gen_net(rng), pre=pre, acc_delay=acc_delay,
             acc_what=rng.choice(["echo", "ner"]), acc_status=rng.choice([0x0000, 0x0000, 0x0110, 0x0113, 0xC000, 0xB000, 0x0001]))
    if op == "get" and rng.randrange(2) == 0:
        # the acceptor's DIMSE timeout is shorter than the requestor's ACSE timeout: if the SCP ends up waiting for a
        # sub-operation response the releasing peer never sends, it is pynetdicom that gives up first (and aborts)
        sc["scp_dimse"] = rng.choice([0.05, 0.1, 0.2])
    if peer == "raw" and op == "find" and k >= 2 and rng.randrange(2) == 0:
        _slow_reader(sc, rng.choice([128, 256, 512]), rng.choice([0.1, 0.2]), rng.choice([1.5, 3.0]))
    return sc


def _slow_reader(sc, cap, acse, factor):
    """The releasing peer does not read for `factor` x the acceptor's ACSE timeout while the acceptor still has
    responses to write that do not fit the connection's buffering (flow control): nothing times out (the network
    timeout is longer), so once the peer reads again everything, including the A-RELEASE-RP, must arrive."""
    sc["slow_reader"] = {"cap": cap, "acse": acse, "pause": round(acse * factor, 4)}
    sc["net"] = dict(sc["net"], pipe_capacity=cap)
    return sc


def shrink(sc):
    if sc["k"] > 0:
        d = dict(sc)
        d["k"] = sc["k"] - 1
        d["sleeps"] = sc["sleeps"][: d["k"] + 1]
        d["consume"] = min(sc["consume"], d["k"] + 1)
        yield d
    if sc["consume"] > 0:
        d = dict(sc)
        d["consume"] = sc["consume"] - 1
        yield d
    if sc.get("pre"):
        d = dict(sc)
        d["pre"] = sc["pre"][:-1]
        yield d
    if sc["net"].get("seg") != "whole" or sc["net"].get("short_write_pct"):
        d = dict(sc)
        d["net"] = {"seg": "whole"}
        yield d
    if sc["sched"].get("line_gap") or sc["sched"].get("sleep_jitter_pct"):
        d = dict(sc)
        d["sched"] = {"switch_pct": sc["sched"].get("switch_pct", 30)}
        yield d
    if any(sc["sleeps"]):
        d = dict(sc)
        d["sleeps"] = [0.0 for _ in sc["sleeps"]]
        yield d


def execute(sc, ctx):
    from pynetdicom import evt, build_role
    from pynetdicom.sop_class import Verification

    sim = ctx.sim
    k = sc["k"]
    sleeps = sc["sleeps"]
    total = sum(sleeps) + 1.0

    def handle_find(event):
        sim.record("handler", op="find", phase="start")
        for i in range(k):
            ctx.sleep(sleeps[i])
            sim.record("handler", op="find", phase="yield", i=i)
            yield 0xFF00, C.small_ds(i)
        if sleeps:
            ctx.sleep(sleeps[k])
        sim.record("handler", op="find", phase="end")

    def handle_get(event):
        sim.record("handler", op="get", phase="start")
        yield k
        for i in range(k):
            ctx.sleep(sleeps[i])
            sim.record("handler", op="get", phase="yield", i=i)
            yield 0xFF00, C.store_ds(i)
        if sleeps:
            ctx.sleep(sleeps[k])
        sim.record("handler", op="get", phase="end")

    def handle_move(event):
        sim.record("handler", op="move", phase="start")
        yield "127.0.0.1", 11113
        yield k
        for i in range(k):
            ctx.sleep(sleeps[i])
            sim.record("handler", op="move", phase="yield", i=i)
            yield 0xFF00, C.store_ds(i)
        if sleeps:
            ctx.sleep(sleeps[k])
        sim.record("handler", op="move", phase="end")

    def handle_store(event):
        sim.record("handler", op="store", phase="start")
        return 0x0000

    def handle_echo(event):
        sim.record("handler", op="echo", phase="start", assoc=ctx.label(event.assoc))
        return sc.get("acc_status", 0x0000) if not event.assoc.is_acceptor else 0x0000

    def handle_ner(event):
        sim.record("handler", op="ner", phase="start", assoc=ctx.label(event.assoc))
        return sc.get("acc_status", 0x0000), None

    sr = sc.get("slow_reader")
    if sc.get("scp_dimse"):
        scp = ctx.make_ae("SCP", acse=total + 1, dimse=sc["scp_dimse"], network=total + 2)
    elif sr:
        scp = ctx.make_ae("SCP", acse=sr["acse"], dimse=total + sr["pause"] + 1, network=total + sr["pause"] + 2)
    else:
        scp = ctx.make_ae("SCP", acse=total + 1, dimse=total + 1, network=total + 2)
    scp.add_supported_context(Verification, scu_role=True, scp_role=True)
    scp.add_supported_context(C.PR_FIND)
    scp.add_supported_context(C.PR_GET)
    scp.add_supported_context(C.PR_MOVE)
    scp.add_supported_context(C.STORAGE_COMMIT)
    scp.add_supported_context(C.CT, scu_role=True, scp_role=True)
    scp.add_requested_context(C.CT)
    ctx.start_server(scp, handlers=[(evt.EVT_C_FIND, handle_find), (evt.EVT_C_GET, handle_get), (evt.EVT_C_MOVE, handle_move),
                                    (evt.EVT_C_STORE, handle_store), (evt.EVT_C_ECHO, handle_echo)])
    if sc["op"] == "move":
        dest = ctx.make_ae("DEST", acse=total + 1, dimse=total + 1, network=total + 2)
        dest.add_supported_context(C.CT)
        ctx.start_server(dest, port=11113, handlers=[(evt.EVT_C_STORE, handle_store)])

    if sc["peer"] == "raw":
        p = RawPeer(ctx)
        ac = p.associate([(1, C.VERIFICATION, [C.IVLE]), (3, C.PR_FIND, [C.IVLE])], timeout=2.0)
        ctx.obs["raw_ac"] = isinstance(ac, dict)
        if not isinstance(ac, dict):
            return
        if sc["op"] == "find":
            ds = b"\x08\x00\x52\x00\x08\x00\x00\x00PATIENT "
            for pd in W.fragment(3, W.rq("C-FIND-RQ", 1, C.PR_FIND, True), ds):
                p.send(pd)
        ctx.sleep(sc["delay"])
        sim.record("release_sent", by="raw")
        p.send(W.release_rq())
        if sr:
            ctx.sleep(sr["pause"])     # not reading: the acceptor's writes pile up against the flow-control limit
        got = p.recv_until((6, 7), timeout=total + 0.5)
        ctx.obs["raw_got"] = got if isinstance(got, str) else got[0]
        p.close()
        ctx.sleep(0.05)
        return

    scu = ctx.make_ae("SCU", acse=total, dimse=total, network=total + 2)
    scu.add_requested_context(Verification)
    scu.add_requested_context(C.PR_FIND)
    scu.add_requested_context(C.PR_GET)
    scu.add_requested_context(C.PR_MOVE)
    scu.add_requested_context(C.CT)
    scu.add_requested_context(C.STORAGE_COMMIT)
    roles = [build_role(C.CT, scu_role=True, scp_role=True)]
    if sc["op"] == "acc_send":
        roles.append(build_role(C.VERIFICATION, scu_role=True, scp_role=True))
    assoc = ctx.associate(scu, handlers=[(evt.EVT_C_STORE, handle_store), (evt.EVT_C_ECHO, handle_echo),
                                         (evt.EVT_N_EVENT_REPORT, handle_ner)], ext_neg=roles)
    ctx.obs["established"] = assoc.is_established
    if not assoc.is_established:
        return
    for po in sc.get("pre", ()):
        # complete earlier operations: the release then arrives "between DIMSE messages"
        if po == "echo":
            assoc.send_c_echo()
        elif po == "store":
            assoc.send_c_store(C.store_ds(7))
        elif po == "find_full":
            for _ in assoc.send_c_find(C.small_ds(0), C.PR_FIND):
                pass
    if sc["op"] == "acc_send":
        def acc_user():
            ok = ctx.wait_until(lambda: any(a.is_established for a in scp.active_associations), 1.0)
            if not ok:
                return
            ctx.sleep(sc.get("acc_delay", 0.0))
            a = [a for a in scp.active_associations][0]
            sim.record("acc_send", phase="call")
            try:
                if sc.get("acc_what", "echo") == "ner":
                    st, _reply = a.send_n_event_report(C.small_ds(3), 1, C.STORAGE_COMMIT, "1.2.840.10008.1.20.1.1")
                else:
                    st = a.send_c_echo()
                sim.record("acc_send", phase="return", res=repr(getattr(st, "Status", None) if st is not None and "Status" in st else "empty"))
            except RuntimeError as e:
                sim.record("acc_send", phase="return", res="raised:RuntimeError")
        th = ctx.spawn(acc_user, "accuser")
    if sc["op"] == "echo":
        assoc.send_c_echo()
    elif sc["op"] in ("find", "get", "move"):
        ident = C.small_ds(0)
        it = {"find": lambda: assoc.send_c_find(ident, C.PR_FIND), "get": lambda: assoc.send_c_get(ident, C.PR_GET),
              "move": lambda: assoc.send_c_move(ident, "DEST", C.PR_MOVE)}[sc["op"]]()
        n = 0
        for n in range(sc["consume"]):
            try:
                st, ds = next(it)
            except StopIteration:
                break
            if not st or st.Status not in (0xFF00, 0xFF01):
                break
    if sc["delay"]:
        ctx.sleep(sc["delay"])
    sim.record("release_sent", by="real")
    assoc.release()
    ctx.obs["req"] = ctx.assoc_state(assoc)
    if sc["op"] == "acc_send":
        th.join()


def _analyse(sc, r):
    """Locate the release request / response / abort on the acceptor's wire."""
    c2s, _ = C.conn_pdus(r, 0, "c2s")
    s2c, _ = C.conn_pdus(r, 0, "s2c")
    rq = next((p for p in c2s if p["type"] == 5), None)
    rp = next((p for p in s2c if p["type"] == 6), None)
    ab = next((p for p in s2c if p["type"] == 7), None)
    ac = next((p for p in s2c if p["type"] == 2), None)
    return rq, rp, ab, ac, c2s, s2c


def check(sc, r):
    from props import lifecycle as L

    out, _dead = L.thread_deaths(ID, r)
    if r.failure:
        out.append(C.v("liveness", "C07/run-%s" % r.failure, "run ended %s: %s" % (r.failure, r.failure_info)))
        return out
    rq, rp, ab, ac, c2s, s2c = _analyse(sc, r)
    if ac is None or rq is None:
        return out
    # the acceptor's side of the story
    acc_rel = [h for h in r.evts("acc0", "EVT_RELEASED")]
    acc_ab = [h for h in r.evts("acc0", "EVT_ABORTED")]
    got_rq = [h for h in r.evts("acc0", "EVT_PDU_RECV") if h["pdu"] == "A_RELEASE_RQ"]
    if not got_rq:
        return out  # never delivered to pynetdicom (closed before)
    if ab is not None:
        return out  # pynetdicom itself aborted: outside the property
    phase = _phase(sc, r)
    where = "%s/%s" % (sc["op"] + ("-" + sc.get("acc_what", "echo") if sc["op"] == "acc_send" else ""), (("subop-pending-past-dimse-timeout" if phase.get("past_dimse_timeout") else "subop-pending") if phase.get("subop_pending") else ("local-send" if phase.get("local_send") else "handler")) if phase["active"] else "idle")
    if rp is None:
        out.append(C.v("release-answered", "C07/no-release-rp/%s" % where,
                       "A-RELEASE-RQ delivered (seq %s, phase %s) but no A-RELEASE-RP written; acceptor events: released=%d aborted=%d" % (
                           rq["seq"], phase, len(acc_rel), len(acc_ab))))
        return out
    if not acc_rel or acc_ab:
        out.append(C.v("both-released", "C07/acceptor-not-released/%s" % where,
                       "A-RELEASE-RP written but acceptor outcome is released=%d aborted=%d" % (len(acc_rel), len(acc_ab))))
    if sc["peer"] == "real":
        st = r.obs.get("req")
        if st is not None and (not st["released"] or st["aborted"]):
            out.append(C.v("both-released", "C07/requestor-not-released/%s" % where, "requestor state %s" % (st,)))
        if not r.evts("req0", "EVT_RELEASED"):
            out.append(C.v("both-released", "C07/requestor-no-event/%s" % where, "EVT_RELEASED did not fire on the requestor"))
    return out


def _phase(sc, r):
    got = [h for h in r.evts("acc0", "EVT_PDU_RECV") if h["pdu"] == "A_RELEASE_RQ"]
    if not got:
        return {"active": False, "yields": None}
    s = got[0]["seq"]
    hs = [h for h in r.hist if h["kind"] == "handler" and h["op"] in ("find", "get", "move") and h["op"] == sc["op"]]
    start = next((h["seq"] for h in hs if h["phase"] == "start"), None)
    end = next((h["seq"] for h in hs if h["phase"] == "end"), None)
    ny = len([h for h in hs if h["phase"] == "yield" and h["seq"] < s])
    active = start is not None and start < s and (end is None or s < end)
    # is the SCP waiting for the response to a C-STORE sub-operation it sent?
    # (C-GET: on this association; C-MOVE: on the sub-association to the destination, which is not the releasing peer)
    # A sub-operation request written just after the release request was delivered (the SCP had not seen the
    # indication yet) counts as well: what matters is that the SCP ended up waiting for a C-STORE response
    # which the releasing peer never sent.
    sent = [h["seq"] for h in r.evts("acc0", "EVT_DIMSE_SENT") if h["msg"] == "C_STORE_RQ"]
    got = [h["seq"] for h in r.evts("acc0", "EVT_DIMSE_RECV") if h["msg"] == "C_STORE_RSP"]
    # acceptor-side local send in progress (reactor paused by send_c_echo of an acceptor-side user thread)
    calls = [h for h in r.hist if h["kind"] == "acc_send"]
    # (also when the call starts just after the request was delivered but before the reactor looked at it)
    local = any(h["phase"] == "call" for h in calls) and not any(h["phase"] == "return" and h["seq"] < s for h in calls)
    pending = len(sent) > len(got)
    past = False
    if pending and sc.get("scp_dimse"):
        # the SCP's own DIMSE timeout ran out while it waited for the sub-operation response and the connection was
        # still there: by then pynetdicom must have reacted (it aborts) - silence beyond that is not the known finding
        t_sub = max(h["t"] for h in r.evts("acc0", "EVT_DIMSE_SENT") if h["msg"] == "C_STORE_RQ")
        ends = [h["t"] for h in r.evts("acc0", "EVT_CONN_CLOSE")] or [r.now]
        past = ends[0] - t_sub > sc["scp_dimse"] * 1.5 + 0.05
    return {"active": active or local, "yields": ny, "subop_pending": pending, "local_send": local, "past_dimse_timeout": past}


def nontrivial(sc, r):
    ph = _phase(sc, r)
    if ph["active"]:
        return r.digest
    return None


def probes(sc, r):
    ph = _phase(sc, r)
    d = {"release_delivered": ph["yields"] is not None, "release_during_handler": ph["active"]}
    if ph["active"]:
        d["release_after_yield_%d_%s" % (ph["yields"], sc["op"])] = True
    rq, rp, ab, ac, _, _ = _analyse(sc, r)
    d["acceptor_wrote_abort"] = ab is not None
    d["release_rp_seen"] = rp is not None
    return d


def sample(sc, r):
    rq, rp, ab, ac, c2s, s2c = _analyse(sc, r)
    return {
        "scenario": sc,
        "acceptor_wire_in": [W.PDU_NAMES.get(p["type"], p["type"]) for p in c2s],
        "acceptor_wire_out": [W.PDU_NAMES.get(p["type"], p["type"]) for p in s2c],
        "phase": _phase(sc, r),
        "steps": r.steps, "virtual_time": round(r.now, 4),
    }
