"""C13 - associations are established only when the acceptance policy allows them."""
from dsim.rawpeer import RawPeer
from props import common as C
from props import lifecycle as L
from props import rawlife as R
from ref import wire as W

ID = "C13"
LEVEL = "exploration"
TECHNIQUE = "deterministic simulation: real acceptor with seeded policy (required calling/called AE titles, user-identity handler verdict) against a scripted requestor that sends arbitrary title bytes and pipelines DIMSE requests around the A-ASSOCIATE-RJ; reference policy oracle on the wire and on handler invocations"
RULE = (
    "a case = one connection from a scripted requestor to a real acceptor configured with a seeded acceptance policy; the "
    "A-ASSOCIATE-RQ carries seeded calling/called title bytes (exact, padded, case-changed, embedded space, different) and "
    "optionally a user-identity item of type 1-5; the EVT_USER_ID handler is unbound, accepts (with/without response), refuses "
    "or raises; the peer also sends C-ECHO/C-STORE requests in the same segment as the request, before reading the answer and "
    "after it; non-trivial = at least one policy check is enabled; distinct = distinct (policy, title relation, identity, "
    "handler behaviour, pipelining) tuples (inputs dominate)"
    " The identity handler is bound with the server's start, later on the running server, or rotated on the running server (bind the new handler, then unbind the old permissive one)."
)
STUBS = ["scripted RawPeer (requestor)"]


def budget(tier):
    if tier == "thorough":
        return {"runs": 12000, "wall": 1500, "selftest": 32, "shrink_s": 30}
    return {"runs": 600, "wall": 240, "selftest": 12, "shrink_s": 20}


def _variant(rng, title, how):
    t = title
    if how == "exact":
        return t
    if how == "pad_lead":
        return (" " * rng.randrange(1, 3) + t)[:16]
    if how == "pad_trail":
        return t
    if how == "pad_both":
        return (" " + t + " ")[:16]
    if how == "lower":
        return t.lower()
    if how == "upper":
        return t.upper()
    if how == "embedded":
        return (t[:2] + " " + t[2:])[:16]
    if how == "prefix":
        return t[:-1] or "OTHER"  # an empty title cannot be put on the wire
    if how == "suffix":
        return (t + "X")[:16]
    return "OTHER"


HOWS = ["exact", "exact", "pad_lead", "pad_trail", "pad_both", "lower", "upper", "embedded", "prefix", "suffix", "other"]


def gen(rng, idx, tier):
    own = rng.choice(["MySCP", "Store_1", "A", "ABCDEFGHIJKLMNOP", "my scp"])
    calling_list = rng.choice([[], [], ["GoodSCU"], ["GoodSCU", "Other1"], [" GoodSCU "], ["a b"]])
    base_calling = (calling_list[rng.randrange(len(calling_list))].strip() if calling_list else "GoodSCU")
    hc, hd = rng.choice(HOWS), rng.choice(HOWS)
    ident = rng.choice([None, None, 1, 2, 3, 4, 5])
    sc = {
        "own": own, "own_pad": rng.choice(["", "", " "]),
        "require_called": rng.choice([False, True, True]),
        "require_calling": calling_list,
        "calling": _variant(rng, base_calling, hc), "called": _variant(rng, own, hd),
        "how": [hc, hd],
        "identity": ident, "id_response_requested": rng.randrange(2),
        "handler": rng.choice(["unbound", "true", "true_resp", "false", "raise", "notimpl"]),
        "pipeline": rng.choice(["none", "same_segment", "before_answer", "after_answer", "all"]),
        # how the identity handler got bound: with the server's start, later on the running server, or by rotating
        # handlers on the running server (bind the new one, then unbind the old, permissive one)
        "bind_how": rng.choice(["start", "start", "late", "rotate"]),
        "bad_update": rng.choice([None, None, ["\\bad"], ["Intruder", "x" * 17], ["   "], ["Other9", "a\\b"]]),
        "sched": C.gen_sched(rng, fine_pct=15), "net": C.gen_net(rng),
    }
    return sc


def shrink(sc):
    for k, v in (("pipeline", "none"), ("identity", None), ("require_called", False), ("require_calling", [])):
        if sc[k] != v:
            d = dict(sc)
            d[k] = v
            yield d
    if sc["net"] != {"seg": "whole"}:
        d = dict(sc)
        d["net"] = {"seg": "whole"}
        yield d


def ref_policy(sc, in_force=None):
    """(accept?, set of legal (result, source, reason) rejections).  `in_force`: the required-calling list the
    AE's public getter reported when the server started (after an update the API refused, it is the old list)."""
    fails = set()
    req = sc["require_calling"] if in_force is None else in_force
    if req:
        allowed = [s.strip() for s in req]
        if sc["calling"].strip() not in allowed:
            fails.add((1, 1, 3))
    if sc["require_called"]:
        if sc["called"].strip() != (sc["own"] + sc["own_pad"]).strip():
            fails.add((1, 1, 7))
    if sc["identity"] is not None and sc["handler"] in ("false", "raise"):
        fails.add((2, 2, 1))
    return (not fails), fails


def execute(sc, ctx):
    from pynetdicom import evt
    from pynetdicom.sop_class import Verification

    sim = ctx.sim
    inv = ctx.obs["invoked"] = []

    def mk(name):
        def h(event):
            sim.record("handler", op=name)
            inv.append(name)
            return 0
        return h

    def on_user_id(event):
        sim.record("handler", op="user_id", type=event.user_id_type)
        hm = sc["handler"]
        if hm == "true":
            return True, None
        if hm == "true_resp":
            return True, b"server-response"
        if hm == "false":
            return False, None
        if hm == "notimpl":
            raise NotImplementedError("not implemented by the user")
        raise ValueError("identity handler failure")

    def old_permissive(event):
        sim.record("handler", op="user_id_old", type=event.user_id_type)
        return True, None

    how = sc.get("bind_how", "start") if sc["handler"] != "unbound" else "start"
    hh = [(evt.EVT_C_ECHO, mk("echo")), (evt.EVT_C_STORE, mk("store"))]
    if sc["handler"] != "unbound" and how == "start":
        hh.append((evt.EVT_USER_ID, on_user_id))
    if how == "rotate":
        hh.append((evt.EVT_USER_ID, old_permissive))
    try:
        ae = ctx.make_ae((sc["own"] + sc["own_pad"]), acse=0.3, dimse=0.3, network=0.3)
    except ValueError as e:  # title refused by the API: not a case
        ctx.obs["config_refused"] = repr(e)
        return
    ae.add_supported_context(Verification)
    ae.add_supported_context(C.CT)
    try:
        ae.require_called_aet = sc["require_called"]
        ae.require_calling_aet = list(sc["require_calling"])
    except Exception as e:  # noqa: BLE001 - configuration refused by the API: not a case
        ctx.obs["config_refused"] = repr(e)
        return
    if sc.get("bad_update"):
        # an update of the policy that the API refuses (invalid title in the list) must leave the policy as it was
        try:
            ae.require_calling_aet = list(sc["bad_update"])
            ctx.obs["bad_update"] = "accepted"
        except Exception as e:  # noqa: BLE001
            ctx.obs["bad_update"] = "refused: %r" % (e,)
        sim.count("fault.refused_policy_update")
    ctx.obs["configured_calling"] = [x.decode() if isinstance(x, bytes) else str(x) for x in ae.require_calling_aet]
    ctx.obs["own_title"] = ae.ae_title
    srv = ctx.start_server(ae, handlers=hh)
    if how in ("late", "rotate"):
        srv.bind(evt.EVT_USER_ID, on_user_id)
    if how == "rotate":
        srv.unbind(evt.EVT_USER_ID, old_permissive)
    p = RawPeer(ctx)
    p.connect()
    extra = []
    if sc["identity"] is not None:
        t = sc["identity"]
        extra.append(W.user_identity_item(t, b"user", b"pass" if t == 2 else b"", sc["id_response_requested"]))
    rq = W.associate_rq(called=sc["called"], calling=sc["calling"], contexts=[(1, C.VERIFICATION, [C.IVLE]), (3, C.CT, [C.IVLE])], extra_user=extra)
    echo = R.build({"pdu": "echo_rq", "ctx": 1, "msg_id": 1})
    store = R.build({"pdu": "store_rq", "ctx": 3, "msg_id": 2})
    pl = sc["pipeline"]
    if pl in ("same_segment", "all"):
        p.send(rq + echo)
    else:
        p.send(rq)
    if pl in ("before_answer", "all"):
        p.send(store)
    ans = p.recv_pdu(1.0)
    ctx.obs["answer"] = ans if isinstance(ans, str) else ans[0]
    if pl in ("after_answer", "all"):
        p.send(echo)
        p.send(store)
    if not isinstance(ans, str) and ans[0] == 2:
        p.send(W.release_rq())
    ctx.obs["peer_end"] = p.drain(0.4)
    p.close()
    ctx.wait_until(lambda: not any(a.is_alive() or a.dul.is_alive() for a in ctx.assocs.values()), 2.0, step=0.005)


def check(sc, r):
    out, dead = L.thread_deaths(ID, r)
    if r.failure:
        out.append(C.v("liveness", "C13/run-%s" % r.failure, "run ended %s" % r.failure))
        return out
    if r.obs.get("config_refused"):
        return out
    accept, fails = ref_policy(sc, r.obs.get("configured_calling"))
    s2c, _ = C.conn_pdus(r, 0, "s2c")
    first = next((p for p in s2c if p["type"] in (2, 3, 7)), None)
    which = "+".join(sorted("%d%d%d" % f for f in fails)) or "none"
    if first is None:
        out.append(C.v("answer", "C13/no-answer/%s" % ("accept" if accept else "reject"), "no A-ASSOCIATE-AC/RJ/A-ABORT written (policy fails: %s)" % which))
        return out
    early_data = sc["pipeline"] in ("same_segment", "before_answer", "all")
    if accept:
        if first["type"] == 7 and early_data:
            pass   # P-DATA before the association is established is a protocol error of the peer: the provider may abort (AA-8)
        elif first["type"] != 2:
            got = W.parse_rj(first["payload"]) if first["type"] == 3 else "abort"
            out.append(C.v("over-reject", "C13/rejected-although-allowed/%s" % (got if isinstance(got, str) else "%(result)d%(source)d%(reason)d" % got),
                           "policy allows the association but the acceptor answered %s (calling %r called %r own %r how %s, identity %s/%s)" % (got, sc["calling"], sc["called"], sc["own"] + sc["own_pad"], sc["how"], sc["identity"], sc["handler"])))
    else:
        if first["type"] == 2:
            out.append(C.v("established", "C13/established-against-policy/%s" % which,
                           "association accepted although policy check(s) %s fail (calling %r list %r, called %r own %r, identity %s handler %s)" % (which, sc["calling"], sc["require_calling"], sc["called"], sc["own"] + sc["own_pad"], sc["identity"], sc["handler"])))
        elif first["type"] == 3:
            rj = W.parse_rj(first["payload"])
            t = (rj["result"], rj["source"], rj["reason"])
            if t not in fails:
                out.append(C.v("rj-reason", "C13/wrong-rj-reason/%d%d%d/%s" % (t + (which,)), "A-ASSOCIATE-RJ carries %s, failing checks allow %s" % (t, sorted(fails))))
        inv = [x for x in r.obs.get("invoked", [])]
        if inv:
            out.append(C.v("no-handler", "C13/handler-after-reject/%s" % "+".join(sorted(set(inv))), "DIMSE handler(s) %s invoked on a connection that was not accepted" % inv))
        if r.evts("acc0", "EVT_ESTABLISHED"):
            out.append(C.v("established", "C13/established-event-against-policy", "EVT_ESTABLISHED fired although the policy rejects"))
    return out


def nontrivial(sc, r):
    if sc["require_called"] or sc["require_calling"] or sc["identity"] is not None:
        return (sc["require_called"], tuple(sc["require_calling"]), tuple(sc["how"]), sc["identity"], sc["handler"], sc["pipeline"], sc["own"], sc["own_pad"])
    return None


def probes(sc, r):
    accept, fails = ref_policy(sc, r.obs.get("configured_calling"))
    d = {"policy_accept": accept, "policy_reject": not accept, "pipeline_" + sc["pipeline"]: True}
    for f in fails:
        d["fail_%d%d%d" % f] = True
    if sc["identity"] is not None:
        d["identity_%s" % sc["handler"]] = True
    d["answer_%s" % r.obs.get("answer")] = True
    return d


def sample(sc, r):
    s2c, _ = C.conn_pdus(r, 0, "s2c")
    return {"scenario": {k: sc[k] for k in sc if k not in ("sched", "net")}, "expected": ref_policy(sc, r.obs.get("configured_calling"))[0],
            "acceptor_wrote": [W.PDU_NAMES.get(p["type"]) for p in s2c], "handlers": r.obs.get("invoked")}
