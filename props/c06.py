"""C06 - both peers agree on how an association ended, and it always ends."""
from props import common as C
from props import lifecycle as L

ID = "C06"
LEVEL = "exploration"
TECHNIQUE = "deterministic simulation of two real AEs: seeded user scripts x thread interleavings x network faults; lifecycle oracle over the recorded history"
RULE = (
    "a case = one acceptor AE and 1-2 requestor AEs (all real pynetdicom code) driven by seeded scripts of public-API "
    "actions on both sides (DIMSE ops, release, abort, simultaneous release/abort from two user threads, handler-initiated "
    "abort/release (immediately or after sleeping), a second user thread releasing/aborting while the first waits for a DIMSE response, AE.shutdown) under a seeded schedule, plus 84 directed cells (hand-placed races and flow-control stalls); two thirds of the seeded cases fault-free (strict oracle), one third with "
    "reset/stall/thread-stall faults (relaxed pairing); non-trivial = at least one association was negotiated and a user "
    "release/abort action raced other activity (two terminal actions, handler action, or fault fired); distinct = distinct run digests"
)
ASSUMPTIONS = [
    "outcome pairing rule: equal outcomes, or released/aborted when the released side answered the release and the aborting side had not yet received the A-RELEASE-RP, or rejected/aborted when the requestor gave up before the A-ASSOCIATE-RJ reached it; with faults fired any differing pair is accepted",
    "liveness bound: all association/provider threads exit within 4 x the largest configured timeout + 1 s of virtual time after the last user action returns",
]


def budget(tier):
    if tier == "thorough":
        return {"runs": 12000, "wall": 2400, "selftest": 48, "shrink_s": 90}
    return {"runs": 480, "wall": 300, "selftest": 16, "shrink_s": 40}


def directed(tier):
    """Hand-placed races that random scripts hit too rarely: a second user thread releasing/aborting while the
    first waits for a DIMSE response, against a handler that sleeps and then ends the association itself."""
    out = []
    t = 0.2
    for act in ("sleep_abort", "sleep_release", "sleep", "abort", "release"):
        for comp in ("echo_release", "echo_abort"):
            for gap2 in (0.0005, 0.002, 0.005):
                for hs in (0.001, 0.01):
                    out.append({
                        "sched": {"switch_pct": 30}, "net": {"seg": "whole"}, "config": "fault-free", "faults": [], "acc_ops": [],
                        "acc": {"acse": t, "dimse": t, "network": 3 * t, "max_pdu": 16382, "echo_act": act, "echo_sleep": hs,
                                "find_k": 1, "find_sleep": 0.0, "reject": None, "timeout_response": "A-ABORT"},
                        "req": [{"acse": t, "dimse": t, "network": 3 * t, "max_pdu": 16382, "start_delay": 0.0,
                                 "ops": [{"op": comp, "gap": 0.0, "gap2": gap2}], "final": "leave", "timeout_response": "A-ABORT"}],
                    })
    # the connection stalls (both directions black-holed, TCP stays open) while the requestor writes a C-STORE
    # request larger than the connection's buffering: send() blocks until the network timeout
    for cap in (512, 4096):
        for at in (300, 700, 2500):
            for size in (3000, 20000):
                out.append({
                    "sched": {"switch_pct": 30}, "net": {"seg": "whole", "pipe_capacity": cap}, "config": "faulty",
                    "faults": [{"conn": 0, "dir": "c2s", "kind": "stall", "at": at}], "acc_ops": [],
                    "acc": {"acse": t, "dimse": t, "network": 3 * t, "max_pdu": 16382, "echo_act": "none", "echo_sleep": 0.001,
                            "find_k": 1, "find_sleep": 0.0, "reject": None, "timeout_response": "A-ABORT"},
                    "req": [{"acse": t, "dimse": t, "network": 2 * t, "max_pdu": 16382, "start_delay": 0.0,
                             "ops": [{"op": "store", "size": size}], "final": "release", "timeout_response": "A-ABORT"}],
                })
    # a message of well over a hundred P-DATA fragments (small peer maximum) in flight when the association dies under
    # the sender: connection reset mid-transfer, or the peer's user aborting
    for size in (6000, 20000):
        for at in (600, 2500, 5000):
            out.append({
                "sched": {"switch_pct": 30}, "net": {"seg": "whole"}, "config": "faulty",
                "faults": [{"conn": 0, "dir": "c2s", "kind": "reset", "at": at}], "acc_ops": [],
                "acc": {"acse": t, "dimse": t, "network": 3 * t, "max_pdu": 128, "echo_act": "none", "echo_sleep": 0.001,
                        "find_k": 1, "find_sleep": 0.0, "reject": None, "timeout_response": "A-ABORT"},
                "req": [{"acse": t, "dimse": t, "network": 2 * t, "max_pdu": 16382, "start_delay": 0.0,
                         "ops": [{"op": "store", "size": size}], "final": "release", "timeout_response": "A-ABORT"}],
            })
        for after in (0.0005, 0.002, 0.006):
            out.append({
                "sched": {"switch_pct": 30}, "net": {"seg": "random", "seg_pct": 40, "delays": [0.0, 0.0005, 0.002]}, "config": "fault-free",
                "faults": [], "acc_ops": [{"after": after, "op": "abort"}],
                "acc": {"acse": t, "dimse": t, "network": 3 * t, "max_pdu": 128, "echo_act": "none", "echo_sleep": 0.001,
                        "find_k": 1, "find_sleep": 0.0, "reject": None, "timeout_response": "A-ABORT"},
                "req": [{"acse": t, "dimse": t, "network": 2 * t, "max_pdu": 16382, "start_delay": 0.0,
                         "ops": [{"op": "store", "size": size}], "final": "release", "timeout_response": "A-ABORT"}],
            })
    return out


def gen(rng, idx, tier):
    faulty = (idx % 3 == 2)
    sc = L.gen_scenario(rng, faulty=faulty)
    sc["config"] = "faulty" if faulty else "fault-free"
    return sc


shrink = L.shrink
execute = L.execute


def check(sc, r):
    faulty = sc["config"] == "faulty"
    out, dead = L.thread_deaths(ID, r)
    out += L.check_liveness(ID, r, sc, skip=dead)
    if r.failure:
        return out
    out += L.check_single_outcome(ID, r, skip=dead)
    out += L.check_agreement(ID, r, faulty, skip=dead)
    return out


def _racy(sc, r):
    ops = [o["op"] for rq in sc["req"] for o in rq["ops"]]
    multi = any(o in ("release_abort", "abort_release", "release_release", "echo_abort", "echo_release") for o in ops)
    return multi or bool(sc.get("acc_ops")) or sc["acc"]["echo_act"] in ("abort", "release", "sleep_abort", "sleep_release") or L.fault_fired(r)


def nontrivial(sc, r):
    negotiated = any(L._negotiated(r, lab) for lab in r.final)
    if negotiated and _racy(sc, r):
        return r.digest
    return None


def probes(sc, r):
    d = {}
    states = set(h["next"] for h in r.evts(name="EVT_FSM_TRANSITION"))
    for s in ("Sta9", "Sta10", "Sta11", "Sta12", "Sta13", "Sta7", "Sta8"):
        d["reached_" + s] = s in states
    for a, b, c in [(L.outcome(r.final[x]) if x else None, L.outcome(r.final[y]) if y else None, c) for x, y, c in L.pairs(r)]:
        d["pair_%s_%s" % (a, b)] = True
    d["fault_fired"] = L.fault_fired(r)
    d["config_" + sc["config"]] = True
    return d


def sample(sc, r):
    return {
        "scenario": sc,
        "final": r.final,
        "pairs": L.pairs(r),
        "terminal_events": {lab: [h["evt"] for h in C.terminal_events(r, lab)] for lab in r.final},
        "steps": r.steps, "virtual_time": round(r.now, 4),
    }
