"""C18 - outgoing messages use an accepted context compatible with their content."""
import zlib
from io import BytesIO

from props import common as C
from props import lifecycle as L
from ref import wire as W

ID = "C18"
LEVEL = "exploration"
TECHNIQUE = "deterministic simulation of two real AEs with seeded sets of accepted contexts (several per abstract syntax, different transfer syntaxes, role selections) and send operations with datasets tagged with every transfer syntax; independent wire reader checks the context ID, role and encoding of every DIMSE request on the wire against the A-ASSOCIATE-RQ/AC of the same wire"
RULE = (
    "a case = one association whose requestor proposes 1-6 contexts over {CT, MR, Patient Root FIND/GET, Verification} with "
    "seeded transfer-syntax lists and role proposals, an acceptor supporting a seeded subset (with roles), then 1-3 operations: "
    "C-STORE of a dataset tagged implicit/explicit LE, explicit BE, deflated or JPEG baseline, C-FIND, C-ECHO, and C-GET whose SCP "
    "sends a C-STORE sub-operation back; checked for every request on the wire: its context ID was accepted in the A-ASSOCIATE-AC, "
    "the context's abstract syntax equals the message's affected SOP class, the sender holds the SCU role for it, the data set "
    "decodes under the accepted transfer syntax to the original, and a dataset was only converted between uncompressed syntaxes "
    "of the same byte order; when the call raises, nothing was written; non-trivial = more than one candidate context existed "
    "for the message or the dataset's syntax differs from every accepted one; distinct = distinct configurations (inputs dominate)"
    " Also: the same object sent from memory and then straight from its file in chunked mode (file bytes go out unconverted: the context's syntax must be the file's), and Unified Procedure Step operations for the UPS Push SOP class, which may travel on an accepted Watch/Pull/Event/Query context (documented substitution) provided the sender holds the SCU role there."
)
TSALL = [C.IVLE, C.EVLE, C.EVBE, C.DEFL, "1.2.840.10008.1.2.4.50"]
UNCOMP_LE = {C.IVLE, C.EVLE, C.DEFL}


UPS_PUSH = "1.2.840.10008.5.1.4.34.6.1"
UPS_FAMILY = ["1.2.840.10008.5.1.4.34.6.2", "1.2.840.10008.5.1.4.34.6.3", "1.2.840.10008.5.1.4.34.6.4", "1.2.840.10008.5.1.4.34.6.5"]   # Watch, Pull, Event, Query


def budget(tier):
    if tier == "thorough":
        return {"runs": 8000, "wall": 2400, "selftest": 24, "shrink_s": 40}
    return {"runs": 400, "wall": 300, "selftest": 12, "shrink_s": 20}


def gen(rng, idx, tier):
    req = []
    for _ in range(rng.randrange(1, 7)):
        ab = rng.choice([C.CT, C.CT, C.CT, C.MR, C.PR_FIND, C.PR_GET, C.VERIFICATION])
        req.append([ab, rng.sample(TSALL, rng.randrange(1, 4)) if ab in (C.CT, C.MR) else rng.sample([C.IVLE, C.EVLE, C.EVBE], rng.randrange(1, 3))])
    sup = []
    for ab in (C.CT, C.MR, C.PR_FIND, C.PR_GET, C.VERIFICATION):
        if rng.randrange(5):
            both = rng.randrange(3) == 0
            sup.append([ab, rng.sample(TSALL, rng.randrange(1, 5)), True if both else None, True if both else None])
    roles = []
    for ab in (C.CT, C.MR):
        if rng.randrange(3) == 0:
            roles.append([ab] + list(rng.choice([(True, True), (False, True), (True, False)])))
    ups = rng.randrange(4) == 0
    if ups:
        # Unified Procedure Step: a UPS Push operation may travel on an accepted Watch/Pull/Event/Query context
        # (documented substitution) - but only one on which the sender holds the SCU role
        for ab in rng.sample([UPS_PUSH] + UPS_FAMILY, rng.randrange(1, 4)):
            req.append([ab, [C.IVLE]])
            sup.append([ab, [C.IVLE], True, True])
            if rng.randrange(2):
                roles.append([ab] + list(rng.choice([(True, True), (False, True), (True, False)])))
    ops = []
    for _ in range(rng.randrange(1, 4)):
        o = rng.choice(["store", "store", "store", "find", "echo", "get", "store_file"] + (["ups_nget", "ups_naction"] * 3 if ups else []))
        d = {"op": o}
        if o in ("store", "store_file"):
            d["cls"] = rng.choice([C.CT, C.CT, C.MR])
            d["ts"] = rng.choice(TSALL)
        ops.append(d)
    if rng.randrange(6) == 0:
        # an object sent from memory (may be converted between uncompressed little endian syntaxes) followed by the
        # same object sent straight from its file (bytes go out as they are: needs the exact syntax)
        cls, ts = rng.choice([C.CT, C.MR]), rng.choice([C.IVLE, C.EVLE])
        ops = [{"op": "store", "cls": cls, "ts": ts}, {"op": "store_file", "cls": cls, "ts": ts}]
    return {"req": req, "sup": sup, "roles": roles, "ops": ops, "sched": {"switch_pct": rng.choice([5, 30])}, "net": C.gen_net(rng)}


def shrink(sc):
    import copy

    for k in ("req", "sup", "roles", "ops"):
        for i in range(len(sc[k])):
            if k in ("req", "ops") and len(sc[k]) == 1:
                continue
            d = copy.deepcopy(sc)
            del d[k][i]
            yield d


def execute(sc, ctx):
    from pynetdicom import evt, build_role
    from pydicom.dataset import FileMetaDataset
    from pydicom.uid import UID

    sim = ctx.sim

    def on_store(event):
        sim.record("handler", op="store", assoc=ctx.label(event.assoc), ctx_id=event.context.context_id)
        return 0x0000

    def on_find(event):
        sim.record("handler", op="find")
        yield 0xFF00, C.small_ds(1)

    def on_get(event):
        sim.record("handler", op="get")
        yield 1
        yield 0xFF00, C.store_ds(7)

    scp = ctx.make_ae("SCP", acse=1.0, dimse=0.6, network=2.0)
    for ab, tss, a, b in sc["sup"]:
        scp.add_supported_context(ab, tss, scu_role=a, scp_role=b)
    if not sc["sup"]:
        ctx.obs["skipped"] = "no supported contexts"
        return
    def on_n_get(event):
        sim.record("handler", op="n_get")
        return 0x0000, C.small_ds(2)

    def on_n_action(event):
        sim.record("handler", op="n_action")
        return 0x0000, None

    ctx.start_server(scp, handlers=[(evt.EVT_C_STORE, on_store), (evt.EVT_C_FIND, on_find), (evt.EVT_C_GET, on_get),
                                    (evt.EVT_N_GET, on_n_get), (evt.EVT_N_ACTION, on_n_action)])
    scu = ctx.make_ae("SCU", acse=1.0, dimse=0.6, network=2.0)
    for ab, tss in sc["req"]:
        scu.add_requested_context(ab, tss)
    ext = [build_role(ab, scu_role=a, scp_role=b) for ab, a, b in sc["roles"]]
    assoc = ctx.associate(scu, handlers=[(evt.EVT_C_STORE, on_store)], ext_neg=ext)
    ctx.obs["established"] = assoc.is_established
    if not assoc.is_established:
        return
    res = ctx.obs["results"] = []
    for i, op in enumerate(sc["ops"]):
        if not assoc.is_established:
            break
        n_before = len([w for w in ctx.net.wire if w["dir"] == "c2s"])
        sim.record("user_op", op=op["op"], i=i, phase="call")
        try:
            if op["op"] == "store":
                ds = C.store_ds(i, sop_class=op["cls"])
                ds.file_meta = FileMetaDataset()
                ds.file_meta.TransferSyntaxUID = UID(op["ts"])
                st = assoc.send_c_store(ds, msg_id=10 + i)
                out = st.Status if st is not None and "Status" in st else "empty"
            elif op["op"] == "store_file":
                import os
                import shutil
                import tempfile
                from pynetdicom import _config

                ds = C.store_ds(i, sop_class=op["cls"])
                ts = UID(op["ts"])
                ds.file_meta = FileMetaDataset()
                ds.file_meta.TransferSyntaxUID = ts
                ds.file_meta.MediaStorageSOPClassUID = ds.SOPClassUID
                ds.file_meta.MediaStorageSOPInstanceUID = ds.SOPInstanceUID
                tmp = tempfile.mkdtemp(prefix="dsim-c18-")
                old_cfg = _config.STORE_SEND_CHUNKED_DATASET
                try:
                    path = os.path.join(tmp, "in.dcm")
                    enc_ts = ts if not ts.is_compressed else UID(C.EVLE)
                    ds.save_as(path, enforce_file_format=True, implicit_vr=enc_ts.is_implicit_VR, little_endian=enc_ts.is_little_endian)
                    _config.STORE_SEND_CHUNKED_DATASET = True
                    st = assoc.send_c_store(path, msg_id=10 + i)
                    out = st.Status if st is not None and "Status" in st else "empty"
                finally:
                    _config.STORE_SEND_CHUNKED_DATASET = old_cfg
                    shutil.rmtree(tmp, ignore_errors=True)
            elif op["op"] == "ups_nget":
                st, _ds = assoc.send_n_get([0x00100010], UPS_PUSH, "1.2.3.4.77", msg_id=10 + i)
                out = st.Status if st is not None and "Status" in st else "empty"
            elif op["op"] == "ups_naction":
                st, _ds = assoc.send_n_action(C.small_ds(3), 1, UPS_PUSH, "1.2.3.4.77", msg_id=10 + i)
                out = st.Status if st is not None and "Status" in st else "empty"
            elif op["op"] == "find":
                out = [s.Status if s is not None and "Status" in s else "empty" for s, _ in assoc.send_c_find(C.small_ds(0), C.PR_FIND, msg_id=10 + i)]
            elif op["op"] == "echo":
                st = assoc.send_c_echo(msg_id=10 + i)
                out = st.Status if st is not None and "Status" in st else "empty"
            else:
                out = [s.Status if s is not None and "Status" in s else "empty" for s, _ in assoc.send_c_get(C.small_ds(0), C.PR_GET, msg_id=10 + i)]
        except (ValueError, RuntimeError) as e:
            out = "raised:%s" % type(e).__name__
        n_after = len([w for w in ctx.net.wire if w["dir"] == "c2s"])
        sim.record("user_op", op=op["op"], i=i, phase="return")
        res.append({"out": out, "wrote": n_after - n_before})
    if assoc.is_established:
        assoc.release()
    ctx.wait_until(lambda: not any(a.is_alive() or a.dul.is_alive() for a in ctx.assocs.values()), 3.0, step=0.005)


def _decode(raw, ts):
    """Decode data-set bytes with pydicom under a transfer syntax; returns {tag: str(value)} or an error string."""
    from pydicom.filereader import read_dataset

    try:
        if ts == C.DEFL:
            raw = zlib.decompress(raw, -zlib.MAX_WBITS)
        implicit = ts == C.IVLE
        little = ts != C.EVBE
        ds = read_dataset(BytesIO(raw), implicit, little)
        return {int(e.tag): str(e.value) for e in ds}
    except Exception as e:  # noqa: BLE001
        return "undecodable: %r" % (e,)


def check(sc, r):
    out, dead = L.thread_deaths(ID, r)
    if r.failure:
        out.append(C.v("liveness", "C18/run-%s" % r.failure, "run ended %s" % r.failure))
        return out
    if not r.obs.get("established"):
        return out
    c2s, _ = C.conn_pdus(r, 0, "c2s")
    s2c, _ = C.conn_pdus(r, 0, "s2c")
    rq = next((p for p in c2s if p["type"] == 1), None)
    ac = next((p for p in s2c if p["type"] == 2), None)
    if rq is None or ac is None:
        return out
    drq, dac = W.parse_associate(rq["payload"]), W.parse_associate(ac["payload"])
    proposed = {p["id"]: p for p in drq["pcs"]}
    accepted = {p["id"]: p["transfer"][0].decode() for p in dac["results"] if p["result"] == 0 and p["transfer"]}
    rq_roles = W.role_items(drq)
    ac_roles = W.role_items(dac)
    for who, pdus in (("requestor", c2s), ("acceptor", s2c)):
        msgs, _ = W.messages(C.as_frames(pdus))
        for m in msgs:
            if not m.command:
                continue
            nm = m.name
            if m.ctx not in accepted:
                out.append(C.v("accepted-context", "C18/message-on-unaccepted-context/%s/%s" % (who, nm), "%s sent %s on context %s which was not accepted (%s)" % (who, nm, m.ctx, sorted(accepted))))
                continue
            if m.is_response:
                continue
            ab = proposed[m.ctx]["abstract"][0].decode()
            sop = (m.command.get(W.T_AFFECTED_CLASS) or m.command.get(W.T_REQUESTED_CLASS) or b"").decode()
            if sop == UPS_PUSH and ab in UPS_FAMILY:
                pass    # documented substitution: a UPS Push operation on an accepted Watch / Pull / Event / Query context
            elif nm != "C-CANCEL-RQ" and sop != ab:
                out.append(C.v("abstract-syntax", "C18/abstract-syntax-mismatch/%s/%s" % (who, nm), "%s sent %s for SOP class %s on context %d whose abstract syntax is %s" % (who, nm, sop, m.ctx, ab)))
            # role: the requestor is SCU by default; role selection (accepted) may change that
            key = ab.encode()
            if key in rq_roles and key in ac_roles:
                rq_scu, rq_scp = ac_roles[key]
            else:
                rq_scu, rq_scp = 1, 0
            has_scu = rq_scu if who == "requestor" else rq_scp
            if not has_scu:
                out.append(C.v("role", "C18/sender-lacks-scu-role/%s/%s" % (who, nm), "%s sent %s on context %d (%s) without holding the SCU role (negotiated requestor roles scu=%s scp=%s)" % (who, nm, m.ctx, ab, rq_scu, rq_scp)))
            if nm == "C-STORE-RQ" and m.dataset:
                ts = accepted[m.ctx]
                dec = _decode(m.dataset, ts)
                if isinstance(dec, str):
                    out.append(C.v("encoding", "C18/dataset-not-in-context-syntax/%s" % who, "data set of %s on context %d does not decode under %s: %s" % (nm, m.ctx, ts, dec)))
                else:
                    inst = dec.get(0x00080018)
                    if inst is None or not inst.startswith("1.2.3.4."):
                        out.append(C.v("encoding", "C18/dataset-content-changed/%s" % who, "decoded data set lost its SOP Instance UID: %s" % (dec,)))
    # per operation: conversion rule and raise-writes-nothing
    res = r.obs.get("results", [])
    rmsgs, _ = W.messages(C.as_frames(c2s))
    for i, op in enumerate(sc["ops"]):
        if i >= len(res):
            break
        o = res[i]
        if isinstance(o["out"], str) and o["out"].startswith("raised:"):
            if o["wrote"]:
                out.append(C.v("raise-writes-nothing", "C18/raised-but-wrote/%s" % op["op"], "%s raised %s but %d writes reached the wire" % (op["op"], o["out"], o["wrote"])))
            continue
        if op["op"] == "store_file":
            m = next((x for x in rmsgs if x.command and x.name == "C-STORE-RQ" and x.command.get(W.T_MESSAGE_ID) == 10 + i), None)
            if m is not None and m.ctx in accepted and accepted[m.ctx] != op["ts"]:
                out.append(C.v("conversion", "C18/file-sent-on-other-syntax/%s-on-%s" % (op["ts"].split(".")[-1], accepted[m.ctx].split(".")[-1]),
                               "a file encoded in %s was sent as it is on a context with transfer syntax %s" % (op["ts"], accepted[m.ctx])))
        if op["op"] == "store":
            m = next((x for x in rmsgs if x.command and x.name == "C-STORE-RQ" and x.command.get(W.T_MESSAGE_ID) == 10 + i), None)
            if m is None or m.ctx not in accepted:
                continue
            cts, dts = accepted[m.ctx], op["ts"]
            if cts != dts:
                ok = cts in UNCOMP_LE and dts in UNCOMP_LE
                if not ok:
                    out.append(C.v("conversion", "C18/illegal-conversion/%s-to-%s" % (dts.split(".")[-1], cts.split(".")[-1]),
                                   "dataset tagged %s was sent on a context with transfer syntax %s" % (dts, cts)))
    return out


def nontrivial(sc, r):
    if not r.obs.get("established"):
        return None
    abs_ = [a for a, _ in sc["req"]]
    if len(abs_) != len(set(abs_)) or sc["roles"] or any(o["op"] == "store" for o in sc["ops"]):
        return (repr(sc["req"]), repr(sc["sup"]), repr(sc["roles"]), repr(sc["ops"]))
    return None


def probes(sc, r):
    res = r.obs.get("results", [])
    d = {"established": bool(r.obs.get("established")), "ops_raised": len([1 for x in res if isinstance(x["out"], str) and x["out"].startswith("raised:")]),
         "ops_done": len(res)}
    for o in sc["ops"]:
        d["op_" + o["op"]] = True
    d["suboperation_store_by_acceptor"] = any(h["kind"] == "handler" and h["op"] == "store" and str(h.get("assoc", "")).startswith("req") for h in r.hist)
    return d


def sample(sc, r):
    return {"requested": sc["req"], "supported": sc["sup"], "roles": sc["roles"], "ops": sc["ops"], "results": r.obs.get("results")}
