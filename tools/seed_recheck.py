#!/venv/bin/python
"""Second pass of the confirmation of a seeded change: the stable-baseline tests that did not pass in the
full-suite run recorded in <dir>/validate.txt (run on a loaded machine, several timing-sensitive tests) are
re-run on their own, with the change applied, in a private network namespace - up to 3 attempts each.
Appends the outcome to validate.txt.  usage: seed_recheck.py <dir>"""
import os
import re
import subprocess
import sys
import time

d = os.path.abspath(sys.argv[1])
txt = open(os.path.join(d, "validate.txt")).read()
if "recheck:" in txt:
    txt = txt[: txt.index("recheck:")]
failed = re.findall(r"^\s+(pynetdicom\.[\w.]+)::(\S+) -> (?:failed|missing|skipped)", txt, re.M)
if "suite_rc" not in txt:
    print("no full-suite result in", d)
    sys.exit(2)
wt = "/tmp/mut/r%d_%d" % (os.getpid(), int(time.time()))
subprocess.run(["git", "-C", "/repo", "worktree", "add", "-q", "--detach", wt, "HEAD"], check=True)
lines = []
try:
    pf = os.path.join(d, "patch_rebased.diff")
    subprocess.run(["git", "-C", wt, "apply", pf if os.path.exists(pf) else os.path.join(d, "patch.diff")], check=True)
    still = []
    for cls, test in failed:
        parts = cls.split(".")
        # module path = everything up to the test class (CamelCase / starts with Test)
        k = next(i for i, p in enumerate(parts) if p.startswith("Test"))
        node = "/".join(parts[:k]) + ".py::" + "::".join(parts[k:]) + "::" + test
        ok = False
        for attempt in range(3):
            cmd = "ip link set lo up; cd %s && /venv/bin/python -m pytest -q -p no:cacheprovider -p no:warnings --timeout=600 '%s'" % (wt, node)
            p = subprocess.run(["unshare", "-n", "sh", "-c", cmd], capture_output=True, text=True)
            if p.returncode == 0:
                ok = True
                break
        lines.append("  %s %s (attempts %d)" % ("passed" if ok else "STILL FAILING", node, attempt + 1))
        if not ok:
            still.append(node)
    head = "recheck: %d not-passed stable tests re-run on their own with the change applied: %d passed, %d still failing" % (
        len(failed), len(failed) - len(still), len(still))
    if still:
        # control: the same tests on the clean tree, right now (machine load / fixed start-up sleeps of the app tests)
        subprocess.run(["git", "-C", wt, "checkout", "-q", "--", "."], check=True)
        for node in still:
            cmd = "ip link set lo up; cd %s && /venv/bin/python -m pytest -q -p no:cacheprovider -p no:warnings --timeout=600 '%s'" % (wt, node)
            p = subprocess.run(["unshare", "-n", "sh", "-c", cmd], capture_output=True, text=True)
            lines.append("  control on the CLEAN tree at the same time: %s %s" % ("passed" if p.returncode == 0 else "fails as well", node))
finally:
    subprocess.run(["git", "-C", "/repo", "worktree", "remove", "--force", wt])
with open(os.path.join(d, "validate.txt"), "w") as f:
    f.write(txt.rstrip("\n") + "\n" + head + "\n" + "\n".join(lines) + "\n")
print(d, head)
