#!/bin/sh
# run every claimed check at the given tier; print id, exit code, seconds, KNOWN-FINDING/VIOLATION line counts
tier=${1:-quick}
cd "$(dirname "$0")/.." || exit 2
for id in $(/venv/bin/python -c "import json;print(' '.join(c['property_id'] for c in json.load(open('MANIFEST.json'))['checks']))"); do
  t0=$(date +%s)
  ./check $id --tier $tier > /tmp/runall_$id.out 2> /tmp/runall_$id.err
  rc=$?
  t1=$(date +%s)
  echo "$id rc=$rc $((t1-t0))s known=$(grep -c '^KNOWN-FINDING' /tmp/runall_$id.out) viol=$(grep -c '^VIOLATION' /tmp/runall_$id.out) err=$(grep -c HARNESS-ERROR /tmp/runall_$id.err)"
done
