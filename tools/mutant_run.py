#!/venv/bin/python
"""Sensitivity experiments: run checks against a seeded change.

usage: mutant_run.py <patch.diff> [--tier quick|thorough] [--nproc N] [--seed S] ID [ID ...]

Creates a scratch worktree of /repo HEAD under /tmp/mut/, applies the patch
there, runs ./check for every ID with VERIF_REPO pointing at the worktree (no
evidence written, replays under /tmp), prints one line per check and removes
the worktree.  This is a development aid; the confirmation recorded in
seeded/<id>/meta.json comes from applying the patch to /repo itself.
"""
import os
import subprocess
import sys
import time

VERIF = os.path.dirname(os.path.dirname(os.path.abspath(__file__)))


def main(argv):
    patch = os.path.abspath(argv[0])
    tier, nproc, seed = "quick", None, "1"
    ids = []
    i = 1
    while i < len(argv):
        if argv[i] == "--tier":
            tier = argv[i + 1]; i += 2
        elif argv[i] == "--nproc":
            nproc = argv[i + 1]; i += 2
        elif argv[i] == "--seed":
            seed = argv[i + 1]; i += 2
        else:
            ids.append(argv[i]); i += 1
    name = "m%d_%d" % (os.getpid(), int(time.time()))
    wt = "/tmp/mut/" + name
    os.makedirs("/tmp/mut", exist_ok=True)
    subprocess.run(["git", "-C", "/repo", "worktree", "add", "-q", "--detach", wt, "HEAD"], check=True)
    rc_all = 0
    try:
        subprocess.run(["git", "-C", wt, "apply", patch], check=True)
        env = dict(os.environ)
        env["VERIF_REPO"] = wt
        env["VERIF_SEED"] = seed
        env["VERIF_REPLAY_DIR"] = "/tmp/mut/replays-" + name
        if nproc:
            env["VERIF_NPROC"] = nproc
        for pid in ids:
            t0 = time.time()
            p = subprocess.run([os.path.join(VERIF, "check"), pid, "--tier", tier], env=env, capture_output=True, text=True)
            lines = [l for l in p.stdout.splitlines() if l.startswith(("VIOLATION", "violation:"))]
            nk = len([l for l in p.stdout.splitlines() if l.startswith("KNOWN-FINDING")])
            print("%s tier=%s rc=%d %.0fs known=%d" % (pid, tier, p.returncode, time.time() - t0, nk))
            for l in lines:
                print("    " + l[:400])
            if p.returncode == 2:
                print("    STDERR: " + p.stderr[-1500:])
            sys.stdout.flush()
            rc_all = max(rc_all, p.returncode)
    finally:
        subprocess.run(["git", "-C", "/repo", "worktree", "remove", "--force", wt])
    return rc_all


if __name__ == "__main__":
    sys.exit(main(sys.argv[1:]))
