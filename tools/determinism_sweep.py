#!/venv/bin/python
"""Large determinism sweep (DESIGN section 8): for every claimed property, run
indices 0..N-1 of the given tier's case list are executed twice, each time in
fresh interpreters, with different PYTHONHASHSEED values, different chunking
(= different in-process predecessors) and different process counts; all run
digests must agree.

usage: determinism_sweep.py [--n 200] [--tier quick] [--procs 4] [--seed 1] [ID ...]
writes selftest/determinism_report.json; exit 0 if all digests agree, 2 otherwise.
"""
import json
import os
import subprocess
import sys
import time

VERIF = os.path.dirname(os.path.dirname(os.path.abspath(__file__)))


def digests(pid, tier, seed, idxs, hashseed, nchunks, procs):
    chunks = [idxs[i::nchunks] for i in range(nchunks)]
    chunks = [c for c in chunks if c]
    out = {}
    running = []
    todo = list(chunks)
    env = dict(os.environ)
    env["PYTHONHASHSEED"] = str(hashseed)
    env["PYTHONDONTWRITEBYTECODE"] = "1"
    env["VERIF_NO_EVIDENCE"] = "1"
    errs = []
    while todo or running:
        while todo and len(running) < procs:
            c = todo.pop()
            p = subprocess.Popen([sys.executable, os.path.join(VERIF, "dsim", "cli.py"), "--digests", pid, tier, str(seed),
                                  ",".join(map(str, c))], env=env, stdout=subprocess.PIPE, stderr=subprocess.PIPE, text=True)
            running.append((p, c))
        time.sleep(0.05)
        for p, c in list(running):
            if p.poll() is None:
                continue
            running.remove((p, c))
            so, se = p.communicate()
            if p.returncode != 0:
                errs.append("chunk %s rc=%s %s" % (c[:3], p.returncode, se[-500:]))
                continue
            for i, d in json.loads(so.strip().splitlines()[-1]):
                out[i] = d
    return out, errs


def main(argv):
    n, tier, procs, seed = 200, "quick", 4, 1
    ids = []
    i = 0
    while i < len(argv):
        if argv[i] == "--n":
            n = int(argv[i + 1]); i += 2
        elif argv[i] == "--tier":
            tier = argv[i + 1]; i += 2
        elif argv[i] == "--procs":
            procs = int(argv[i + 1]); i += 2
        elif argv[i] == "--seed":
            seed = int(argv[i + 1]); i += 2
        else:
            ids.append(argv[i]); i += 1
    if not ids:
        ids = [c["property_id"] for c in json.load(open(os.path.join(VERIF, "MANIFEST.json")))["checks"]]
    rp = os.path.join(VERIF, "selftest", "determinism_report.json")
    report = {"properties": {}}
    if os.path.exists(rp):
        report = json.load(open(rp))   # merge: one entry per property, the latest run wins
    bad = 0
    for pid in ids:
        t0 = time.time()
        idxs = list(range(n))
        a, ea = digests(pid, tier, seed, idxs, 11, 4 * procs, procs)
        b, eb = digests(pid, tier, seed, list(reversed(idxs)), 90210, 3 * procs + 1, max(1, procs // 2))
        mism = sorted(k for k in a if k in b and a[k] != b[k])
        missing = sorted(set(idxs) - set(a)) + sorted(set(idxs) - set(b))
        report["properties"][pid] = {"tier": tier, "verif_seed": seed, "compared": len([k for k in a if k in b]), "mismatching_run_indices": mism, "errors": ea + eb,
                                     "distinct_digests": len(set(a.values())), "wall_s": round(time.time() - t0, 1)}
        ok = not mism and not ea and not eb and not missing
        print("%s compared=%d mismatches=%d errors=%d distinct=%d %.0fs %s" % (pid, len([k for k in a if k in b]), len(mism), len(ea + eb), len(set(a.values())), time.time() - t0, "OK" if ok else "FAIL"))
        sys.stdout.flush()
        if not ok:
            bad += 1
    os.makedirs(os.path.join(VERIF, "selftest"), exist_ok=True)
    with open(rp, "w") as f:
        json.dump(report, f, indent=1)
    return 2 if bad else 0


if __name__ == "__main__":
    sys.exit(main(sys.argv[1:]))
