#!/venv/bin/python
"""Run the scenario of a replay file under its seed (and the next N-1 seeds) WITHOUT the recorded decisions; prints violations."""
import json, os, sys
VERIF = os.path.dirname(os.path.dirname(os.path.abspath(__file__)))
sys.path.insert(0, VERIF); sys.path.insert(0, os.environ.get("VERIF_REPO", "/repo"))
from dsim import runner, harness as H
doc = runner._unbytes(json.load(open(sys.argv[1])))
n = int(sys.argv[2]) if len(sys.argv) > 2 else 1
mod = runner.load_prop(doc["property"]); H.prepare()
for k in range(n):
    r, viol, _ = runner.eval_case(mod, doc["scenario"], doc["seed"] + k)
    print(doc["seed"] + k, r.failure, [v["sig"] for v in viol])
sys.stdout.flush(); os._exit(0)
