#!/venv/bin/python
"""Regenerate MANIFEST.json from the property modules present in props/."""
import importlib
import json
import os
import sys

VERIF = os.path.dirname(os.path.dirname(os.path.abspath(__file__)))
sys.path.insert(0, VERIF)

NA = {
    "C01": "pure codec function of its input (encode/decode/to_primitive): no schedule, clock, fault or interleaving can change its result, so simulation would only be input generation in disguise",
    "C10": "pure function of (proposed contexts, supported contexts, role proposals, config flag); nothing a schedule, clock or fault can influence (its wire consequences are exercised under C11/C12)",
    "C17": "pure value conversion primitive <-> command set; no time, I/O or interleaving involved",
    "C28": "finite table/function check over 65536 status values; exhaustive enumeration of a pure function, no behaviour to simulate",
    "C29": "deterministic query over an in-memory database as a function of (stored instances, identifier); no concurrency, time or fault in the property",
    "C30": "path construction as a function of received UID strings; needs hostile inputs and a filesystem diff, not schedules or faults",
}

LEVEL_TEXT = {
    "exploration": "seeded search over scenarios x schedules x faults in a deterministic simulator running the real pynetdicom threads; a clean batch is evidence, not proof",
    "fault_enumeration": "every fault/cut point (or table cell) of fixed reference exchanges is enumerated and each executed as a deterministic simulated run, plus seeded schedules around them",
}


def main():
    props = [json.loads(l) for l in open(os.path.join(VERIF, "properties.jsonl"))]
    checks = []
    na = []
    for p in props:
        pid = p["id"]
        modpath = os.path.join(VERIF, "props", pid.lower() + ".py")
        if pid in NA:
            na.append({"property_id": pid, "reason": NA[pid]})
            continue
        if not os.path.exists(modpath):
            na.append({"property_id": pid, "reason": "check not built yet in this round (planned: DESIGN.md section 5); not claimed"})
            continue
        mod = importlib.import_module("props." + pid.lower())
        checks.append({
            "property_id": pid,
            "quick_cmd": "./check %s --tier quick" % pid,
            "thorough_cmd": "./check %s --tier thorough" % pid,
            "evidence_file": "/verif/evidence/%s.json" % pid,
            "replay_cmd_template": "./check %s --replay {path}" % pid,
            "engine": "dsim",
            "level_claimed": {
                "category": mod.LEVEL,
                "text": getattr(mod, "LEVEL_TEXT", LEVEL_TEXT[mod.LEVEL]),
                "design_ref": "DESIGN.md section 5, %s" % pid,
            },
            "level_note": getattr(mod, "LEVEL_NOTE", "trusted base: the simulator (dsim/: scheduler, virtual clock, simulated TCP and synchronisation primitives), the independent wire reader (ref/wire.py) and the oracle in props/%s.py; sampling of schedules, not enumeration" % pid.lower()),
            "technique": mod.TECHNIQUE,
        })
    man = {
        "version": 1,
        "setup_cmd": "/venv/bin/python -c \"import sys; sys.path.insert(0,'/repo'); import pynetdicom, pydicom; assert pynetdicom.__file__.startswith('/repo/'), pynetdicom.__file__; print('ok', pynetdicom.__version__)\"",
        "hooks": {
            "guard": "PYNETDICOM_VERIF",
            "enable": "none needed: the simulator rebinds module attributes (time, queue, threading, socket, select) of pynetdicom and socketserver inside its own worker processes; /repo carries no hook code",
            "baseline_off_cmd": "cd /repo && /venv/bin/python -m pytest -ra -q -p no:cacheprovider --timeout=900 --continue-on-collection-errors",
            "source_commits": [],
            "add_only": True,
        },
        "engines": [
            {
                "name": "dsim",
                "path": "/verif/dsim",
                "serves_properties": [c["property_id"] for c in checks],
                "kind_free_text": "deterministic simulation with fault injection: baton-passing scheduler over real threads (yield points at every simulated primitive plus sampled LINE events, starvation and stall faults), virtual clock, simulated TCP with segmentation, short writes, flow control, byte-offset reset/stall faults and receive cost, scripted byte-level peer, decision-log replay and minimisation",
            }
        ],
        "checks": checks,
        "not_applicable": na,
        "notes": "Sensitivity: seeded/<id>/ holds independently written changes to pynetdicom with the checks that catch them (DESIGN.md 13.6). Every check imports pynetdicom from /repo's working tree at run time (sys.path[0]=/repo; asserted). Exit 0 clean (KNOWN-FINDING lines allowed), 1 with VIOLATION lines, 2 harness error. VERIF_SEED selects the seed; VERIF_NPROC the worker count (default 16).",
    }
    with open(os.path.join(VERIF, "MANIFEST.json"), "w") as f:
        json.dump(man, f, indent=1)
    print("claimed", [c["property_id"] for c in checks])
    print("not claimed", [n["property_id"] for n in na])


if __name__ == "__main__":
    main()
