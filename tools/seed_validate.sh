#!/bin/sh
# usage: seed_validate.sh <dir with patch.diff and demo.py|demo_test.py> [--no-suite]
# Confirms a seeded change in a scratch worktree of /repo HEAD (outside /repo and /verif):
#   1. the demonstration passes on the clean tree, 2. fails with the patch applied,
#   3. the repository's full test suite (stable baseline) still passes with the patch applied.
# Everything runs in a private network namespace (the suite binds fixed ports).
# Writes <dir>/validate.txt and removes the worktree.
d=$(cd "$1" && pwd); nosuite=$2
name=v$$_$(date +%s)
wt=/tmp/mut/$name
mkdir -p /tmp/mut
git -C /repo worktree add -q --detach "$wt" HEAD || exit 2
out=$d/validate.txt
: > "$out"
if [ -f "$d/demo_test.py" ]; then
  demo="/venv/bin/python -m pytest -q -p no:cacheprovider -x $d/demo_test.py"
else
  demo="/venv/bin/python $d/demo.py"
fi
run_demo() {
  unshare -n sh -c "ip link set lo up; cd $wt && timeout 300 $demo" > "$d/.demo_out" 2>&1
  echo $?
}
rc_clean=$(run_demo); tail -5 "$d/.demo_out" > "$d/.demo_clean_tail"
pf=$d/patch.diff; [ -f "$d/patch_rebased.diff" ] && pf=$d/patch_rebased.diff
if ! git -C "$wt" apply "$pf"; then echo "patch does not apply" >> "$out"; git -C /repo worktree remove --force "$wt"; exit 2; fi
rc_mut=$(run_demo); tail -8 "$d/.demo_out" > "$d/.demo_mut_tail"
rc_mut2=$(run_demo)
git -C "$wt" checkout -q -- . ; rc_clean2=$(run_demo); git -C "$wt" apply "$pf"
echo "repo_head=$(git -C /repo rev-parse --short HEAD)" >> "$out"
echo "demo_clean_rc=$rc_clean demo_clean_rc_again=$rc_clean2 demo_mutant_rc=$rc_mut demo_mutant_rc_again=$rc_mut2" >> "$out"
echo "--- demo on mutant (tail)" >> "$out"; cat "$d/.demo_mut_tail" >> "$out"
if [ "$nosuite" != "--no-suite" ]; then
  unshare -n sh -c "ip link set lo up; cd $wt && /venv/bin/python -m pytest -q -p no:cacheprovider --timeout=900 --continue-on-collection-errors --junitxml=$wt/.junit.xml" > "$d/.suite_out" 2>&1
  echo "--- full suite with patch" >> "$out"
  tail -1 "$d/.suite_out" >> "$out"
  /venv/bin/python "$(dirname "$0")/baseline_compare.py" "$wt/.junit.xml" >> "$out" 2>&1
  echo "suite_rc=$?" >> "$out"
fi
rm -f "$d/.demo_out" "$d/.demo_clean_tail" "$d/.demo_mut_tail" "$d/.suite_out"
git -C /repo worktree remove --force "$wt"
cat "$out"
