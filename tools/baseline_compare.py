#!/venv/bin/python
"""Compare a junit xml of the repository's suite with the stable baseline:
prints the stable-pass tests that did not pass in this run."""
import json
import sys
import xml.etree.ElementTree as ET

base = json.load(open("/root/.vp/BASELINE.json"))
stable = set(base["stable_pass"])
root = ET.parse(sys.argv[1]).getroot()
status = {}
for tc in root.iter("testcase"):
    name = "%s::%s" % (tc.get("classname"), tc.get("name"))
    # pytest junit classname: pkg.module.Class ; baseline: pkg.module.Class::test
    st = "passed"
    for ch in tc:
        if ch.tag in ("failure", "error"):
            st = "failed"
        elif ch.tag == "skipped":
            st = "skipped"
    status[name] = st
bad = sorted(n for n in stable if status.get(n) != "passed")
print("stable baseline tests: %d, in this run passed: %d, not passed: %d" % (len(stable), len(stable) - len(bad), len(bad)))
for n in bad:
    print("  %s -> %s" % (n, status.get(n, "missing")))
sys.exit(1 if bad else 0)
