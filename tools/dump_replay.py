#!/venv/bin/python
"""Replay a replay file and print its history (development aid)."""
import json, os, sys
VERIF = os.path.dirname(os.path.dirname(os.path.abspath(__file__)))
sys.path.insert(0, VERIF)
REPO = os.environ.get("VERIF_REPO", "/repo")
sys.path.insert(0, REPO)
from dsim import runner, harness as H
doc = runner._unbytes(json.load(open(sys.argv[1])))
mod = runner.load_prop(doc["property"])
H.prepare()
dec = list(doc["decisions"]) + [0] * (doc.get("decisions_len", len(doc["decisions"])) - len(doc["decisions"]))
r, viol, _ = runner.eval_case(mod, doc["scenario"], doc["seed"], replay=dec, lenient=False)
print("scenario:", json.dumps(doc["scenario"], default=repr))
kinds = set(sys.argv[2].split(",")) if len(sys.argv) > 2 else None
for h in r.hist:
    if kinds and h["kind"] not in kinds:
        continue
    d = {k: v for k, v in h.items() if k not in ("bytes", "data")}
    if h["kind"] == "evt" and h["evt"] in ("EVT_DATA_SENT", "EVT_DATA_RECV"):
        continue
    print(d)
print("died:", r.died)
print("failure:", r.failure, r.failure_info)
print("final:", r.final)
for v in viol:
    print("VIOL", v["sig"], v["msg"])
sys.stdout.flush()
os._exit(0)
