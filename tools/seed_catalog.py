#!/venv/bin/python
"""Catalogue of the independently seeded changes (written by sub-agents that saw only the property text).
`import` copies the confirmed deliverables from /tmp/seed/out into /verif/seeded/<ID>-<k>/ and writes meta.json;
`matrix` applies each patch to /repo itself, runs the listed checks (quick tier), undoes it and records the result.

usage: seed_catalog.py import | matrix [ID-k ...]
"""
import json
import os
import re
import shutil
import subprocess
import sys
import time

VERIF = os.path.dirname(os.path.dirname(os.path.abspath(__file__)))
SRC = "/tmp/seed/out"

# (what the change does, what it needs in order to manifest, checks expected to catch it)
CAT = {
    "C02-A": ("item header parsed with one 4-byte unpack: the reserved byte leaks into the item length", "a conformant A-ASSOCIATE-RQ/AC whose item or sub-item header carries a non-zero reserved byte (unusual but legal input)", ["C02"]),
    "C02-B": ("the DUL validates to_primitive() only for A-ASSOCIATE PDUs; an A-ABORT with an undefined source raises inside the state machine", "a well-framed A-ABORT with source 3 (or provider source with an undefined reason) on an established association", ["C02"]),
    "C03-A": ("AssociationSocket.recv() bounds the number of socket reads per chunk", "a PDU header or a small PDU body arriving in three or more TCP segments", ["C03", "C15"]),
    "C03-B": ("the struct.error guard for a short PDU header replaced by an emptiness test", "the peer closing the connection 1-5 bytes into a PDU header", ["C03", "C02", "C05"]),
    "C04-A": ("Sta4+Evt15 routed to AA-1 instead of AA-2", "a local abort reaching the provider in Sta4 (abort from an EVT_CONN_OPEN handler)", ["C04"]),
    "C04-B": ("AA-7 also restarts the ARTIM timer", "a peer that keeps sending invalid PDUs in Sta13 for longer than the ARTIM timeout", ["C04"]),
    "C05-A": ("Timer.restart() no longer clears the stop mark: a stopped timer never expires again", "acceptor (ARTIM started by AE-5, stopped by AE-6), local abort (AA-1 restarts ARTIM), peer ignores the A-ABORT and keeps the receive path busy", ["C09", "C08"]),
    "C05-B": ("the ARTIM check moved behind the transport check in the reactor loop", "ARTIM expiry and a complete A-ASSOCIATE-RQ becoming visible in the same reactor iteration (provider thread held up in Sta2)", ["C05"]),
    "C06-A": ("a TimeoutError from socket.send() is swallowed and the send retried", "the connection stalls (peer stops reading) while the local side writes more than the buffers hold", ["C08", "C06"]),
    "C06-B": ("the reactor answers a queued A-RELEASE-RQ even when the association is no longer established", "the peer's release request queued while a handler runs, the handler aborts, the reactor makes one more pass", ["C06"]),
    "C07-A": ("send_n_event_report() leaves the reactor paused on a Failure status", "an acceptor-side user thread sends N-EVENT-REPORT, the peer answers with a Failure status and then requests release", ["C07"]),
    "C07-B": ("Association.kill() gives up waiting for the provider after the ACSE timeout", "the release request arrives while a large multi-PDU response is being written and the peer does not read for longer than the ACSE timeout (flow control)", ["C07", "C08"]),
    "C08-A": ("same change as C06-A, written independently: send() retries for ever on a write timeout", "a fully passive peer (reads nothing) during a large C-STORE", ["C08", "C06"]),
    "C08-B": ("DIMSE get_msg() keeps waiting while a message is part-received", "the peer stops at a PDU boundary inside a DIMSE message", ["C08", "C24"]),
    "C09-A": ("Timer.remaining takes the larger of monotonic and wall-clock elapsed time", "a forward wall-clock step while a timer runs", ["C09"]),
    "C09-B": ("the reactor polls the ARTIM timer only when time.time() has passed a stored due stamp", "a backward wall-clock step while ARTIM runs", ["C09"]),
    "C11-A": ("requestor-side role proposals are copied via a dict keyed by abstract syntax: duplicates lose their roles", "the same abstract syntax proposed in two contexts plus a role selection item with a non-default role", ["C11"]),
    "C11-B": ("acceptor negotiation carries the previous context's role proposal over to the next context", "two contexts, a role item only for the earlier class, explicit acceptor roles for the later one", ["C11"]),
    "C12-A": ("associate() only numbers contexts that have no ID yet", "contexts taken from an earlier association mixed with fresh ones", ["C12", "C11"]),
    "C12-B": ("result 0x01 (user rejection) contexts are dropped from the A-ASSOCIATE-AC", "role selection that leaves neither role usable for one context", ["C12"]),
    "C13-A": ("a matching called AE title resets a rejection decided by the calling AE title check", "both title checks enabled, called title right, calling title not in the list", ["C13"]),
    "C13-B": ("unbind() of an intervention handler that is not the bound one restores the default handler", "identity handler rotated on a running server: bind(new) then unbind(old)", ["C13"]),
    "C14-A": ("only established acceptors count against maximum_associations", "a second request negotiated while the first has passed its check but is not yet established", ["C14"]),
    "C14-B": ("the limit counts only acceptors of the same listening server", "one AE listening on two ports with requests spread over both", ["C14"]),
    "C15-A": ("'small data sets go out in a single PDV' fast path compares with the maximum, not maximum-6", "an encoded data set length in (max-6, max]", ["C15"]),
    "C15-B": ("maximum_pdu_size = min(both maxima), so a local 0 (unlimited) wins", "local side announced 0, peer a finite maximum", ["C15"]),
    "C16-A": ("an empty data set yields one empty data-set PDV when the peer's maximum is 0", "peer maximum PDU length 0 and a message whose data set encodes to zero bytes", ["C16"]),
    "C16-B": ("the command set of a chunked C-STORE announces a data set only if the file is longer than its File Meta", "chunked send of a file that holds only preamble and File Meta", ["C16"]),
    "C18-A": ("the role filter runs before the UPS Push substitution", "a UPS Push operation when the only usable UPS context is one on which the sender is not SCU", ["C18"]),
    "C18-B": ("per-association C-STORE context cache keyed without allow_conversion", "a converted in-memory send followed by a chunked file send of the same object on one association", ["C18"]),
    "C19-A": ("the accepted-context gate of the sub-operation SCP tests truthiness: context ID 0 skips it", "a C-STORE sub-operation request on context ID 0 during C-GET", ["C19"]),
    "C19-B": ("a message's context ID becomes that of the last PDV processed", "command set PDV on an unaccepted ID, data-set PDV on an accepted one", ["C19"]),
    "C20-A": ("responses are recognised by a truthy MessageIDBeingRespondedTo", "a request with Message ID 0", ["C20"]),
    "C20-B": ("N-CREATE without instance UID: failure sent through 'attempt' without returning, then a second response", "N-CREATE-RQ without Affected SOP Instance UID and a handler that does not supply one", ["C20"]),
    "C21-A": ("exact type check for integer statuses rejects IntEnum members", "a handler returning its status as an IntEnum member", ["C21"]),
    "C21-B": ("the per-iteration reset of the C-FIND response identifier removed", "a Pending match followed by a non-Pending result without dataset", ["C21", "C26"]),
    "C22-A": ("all-failed status decided by 'nothing completed or warned' instead of failed == announced", "handler announces N, yields fewer, every performed sub-operation fails", ["C22"]),
    "C22-B": ("sub-operation status classified with code_to_category(): undefined codes fall in no bucket", "the storage SCP answers a sub-operation with a status outside the Storage table (subsumed by fix bced1dd: on HEAD every status other than Success/Warning counts as failed, so the change no longer breaks the property; caught on the tree before that fix)", ["C22"]),
    "C23-A": ("the C-CANCEL store is no longer cleared before an operation starts", "a C-CANCEL naming ID n received while idle, then an operation reusing ID n", ["C23"]),
    "C23-B": ("Event.is_cancelled treats Message ID 0 as 'no message ID'", "an operation with Message ID 0 and a matching C-CANCEL", ["C23"]),
    "C24-A": ("decode_msg returns 'not complete' after the command set even if data-set PDVs follow in the same PDU", "a peer packing command and data-set PDVs of a response into one P-DATA-TF", ["C24", "C15"]),
    "C24-B": ("get_msg() waits on while a message is part-received (and clears partial messages on invalid paths)", "one fragment of a response, then silence with the connection open", ["C24", "C08"]),
    "C25-A": ("chunked send accepts a convertible context although file bytes go out unconverted", "chunked send of a file whose syntax differs from the only accepted (uncompressed) syntax", ["C25", "C18"]),
    "C25-B": ("last fragment taken as data[-(len % size):]: exact multiples repeat the whole data set", "an encoded data set of exactly k fragments, k >= 2", ["C25", "C15"]),
    "C26-A": ("failures of a notification handler are remembered in a set keyed by (event, func, args): unhashable for the args form", "a raising notification handler bound as (event, handler, [args])", ["C26"]),
    "C26-B": ("C-FIND exception branch simplified; identifier reset moved below it", "a C-FIND generator that yields a match and then raises", ["C26", "C21"]),
    "C27-A": ("P-DATA-TF read in Sta13 is not decoded nor announced via EVT_PDU_RECV", "a P-DATA-TF already buffered when the provider enters Sta13", ["C27"]),
    "C27-B": ("the acceptor's association thread is started before EVT_CONN_OPEN is triggered", "the request thread descheduled between start() and the trigger", ["C27"]),
    # --- third round: written after the strengthening of 13.6, by fresh sub-agents (source /tmp/seed/out3/<ID>/A)
    "C03-C": ("header parsed with int.from_bytes and the completeness test compares the body with the length field only", "the peer closing 1-5 bytes into a PDU header whose length bytes received so far are zero", ["C03"]),
    "C05-C": ("AA-7 also restarts the ARTIM timer (same idea as C04-B, written independently for C05)", "a peer that keeps sending A-ASSOCIATE-RQ / invalid PDUs in Sta13 for longer than the ARTIM timeout", ["C04", "C08"]),
    "C06-C": ("the provider's request queue becomes bounded (maxsize 32)", "a DIMSE message of more than 32 fragments in flight when the local provider thread ends (reset, peer abort)", ["C06"]),
    "C07-C": ("_handle_no_response() calls the consuming is_release_requested() before deciding to abort", "the peer answers a sub-operation request with A-RELEASE-RQ and the acceptor's DIMSE timeout is shorter than the peer's ACSE timeout", ["C07"]),
    "C08-C": ("get_msg() waits on while a message is part-received (as C08-B / C24-B, written independently)", "the peer stops at a PDU boundary inside a DIMSE message", ["C08", "C24"]),
    "C14-C": ("the limit check uses the spawning server's active_associations (per listener, as C14-B)", "one AE listening on two ports", ["C14"]),
    "C15-C": ("maximum_pdu_size: own maximum when the peer's is 0, else min(peer, local) - a local 0 switches fragmentation off", "local side announced 0, peer a finite maximum", ["C15"]),
    "C20-C": ("the Storage status lookup of a sub-operation moved out of the try block", "the storage SCP answers a sub-operation with a status outside the Storage table", ["C20"]),
    "C22-C": ("all-failed status decided by 'nothing completed or warned' (as C22-A, written independently)", "handler announces N, yields fewer, every performed sub-operation fails", ["C22"]),
    "C23-C": ("the pre-operation clear of the C-CANCEL store replaced by a clear on every idle reactor poll", "a C-CANCEL and the next request (same message ID) arriving within one reactor poll interval", ["C23"]),
    "C24-C": ("decode_msg skips empty fragments - including the 'last' test", "a peer ending a data set with an empty fragment marked last", ["C24", "C15"]),
    "C27-C": ("AA-2 triggers EVT_CONN_CLOSE only if the socket is still connected - after closing it", "AA-2 closing the connection (ARTIM expiry in Sta2, abort collision in Sta13)", ["C27"]),
    # --- fourth round (source /tmp/seed/out4/<ID>/A), same procedure, for the properties that had no third-round change
    "C02-D": ("decode_msg skips an empty data-set fragment before the 'last fragment' test (as C24-C, written independently for C02)", "a peer ending a data set with a zero-length last fragment", ["C24", "C15"]),
    "C04-D": ("Timer.restart() only restarts a timer that was started: AA-1 on the requestor leaves ARTIM stopped in Sta13", "a requestor that aborts while the peer keeps streaming PDUs", ["C08"]),
    "C09-D": ("Timer.remaining subtracts max(monotonic elapsed, wall-clock elapsed)", "the wall clock stepped forwards while a timer runs", ["C09"]),
    "C11-D": ("the SCP/SCU role proposal of one context is reused for later contexts that carry none", "a role item for SOP class X, none for Y listed after it, acceptor with explicit roles for Y", ["C11"]),
    "C12-D": ("associate() keeps a context ID that is already set on a requested context", "associate(contexts=...) with contexts taken from an earlier association plus a new one", ["C12"]),
    "C13-D": ("required calling titles cached in a pre-stripped set that is emptied before the new list is validated", "an update of require_calling_aet that the setter refuses (invalid title), then an unlisted caller", ["C13"]),
    "C16-D": ("a data-set fragment is flagged last only if it is shorter than the room in the PDV", "an encoded data set whose length is an exact multiple of (peer maximum - 6)", ["C16", "C15"]),
    "C18-D": ("role filter moved before the UPS context substitution (as C18-A, written independently)", "UPS Push request with only another UPS context accepted, on which the sender is not SCU", ["C18"]),
    "C19-D": ("a received message takes its context ID from the last PDV instead of the command PDV", "command PDV on an unaccepted context ID, data-set PDV on an accepted one", ["C19"]),
    "C21-D": ("fragment count computed as (len + room) // room: one too many at exact multiples", "a response data set whose encoding is an exact multiple of (requestor maximum - 6)", ["C16", "C21"]),
    "C25-D": ("fragment length rounded down to even while the caller still counts fragments with the unrounded length", "a peer announcing an odd maximum PDU length", ["C25", "C15", "C16"]),
    "C26-D": ("a failing notification handler sets the reactor checkpoint (un-pauses the reactor)", "a raising notification handler on the side that is inside a multi-response send_*() whose results are consumed slowly", ["C26"]),
}


BASE = {"C22-B": "bced1dd~1"}


def parse_validate(txt):
    d = {}
    m = re.search(r"demo_clean_rc=(\d+) demo_clean_rc_again=(\d+) demo_mutant_rc=(\d+) demo_mutant_rc_again=(\d+)", txt)
    if m:
        d["demo_clean_rc"] = [int(m.group(1)), int(m.group(2))]
        d["demo_changed_rc"] = [int(m.group(3)), int(m.group(4))]
    m = re.search(r"in this run passed: (\d+), not passed: (\d+)", txt)
    if m:
        d["suite_stable_passed"], d["suite_stable_not_passed"] = int(m.group(1)), int(m.group(2))
    m = re.search(r"recheck: (\d+) not-passed stable tests re-run on their own with the change applied: (\d+) passed, (\d+) still failing", txt)
    if m:
        d["recheck"] = {"rerun": int(m.group(1)), "passed": int(m.group(2)), "still_failing": int(m.group(3)),
                        "still_failing_also_fail_on_clean_tree_at_the_same_time": len(re.findall(r"control on the CLEAN tree at the same time: fails as well", txt)),
                        "still_failing_but_pass_on_clean_tree": len(re.findall(r"control on the CLEAN tree at the same time: passed", txt))}
    m = re.search(r"repo_head=(\w+)", txt)
    if m:
        d["validated_on_repo_head"] = m.group(1)
    return d


def do_import():
    for key in sorted(CAT):
        pid, k = key.split("-")
        src = {"C": os.path.join("/tmp/seed/out3", pid, "A"), "D": os.path.join("/tmp/seed/out4", pid, "A")}.get(k) or os.path.join(SRC, pid, k)
        if not os.path.exists(os.path.join(src, "validate.txt")):
            print("skip (no validate.txt):", key)
            continue
        dst = os.path.join(VERIF, "seeded", key)
        os.makedirs(dst, exist_ok=True)
        for f in ("patch.diff", "patch_rebased.diff", "demo.py", "demo_test.py", "notes.md", "validate.txt"):
            if os.path.exists(os.path.join(src, f)):
                shutil.copy(os.path.join(src, f), os.path.join(dst, f))
        what, needs, expect = CAT[key]
        meta_p = os.path.join(dst, "meta.json")
        meta = json.load(open(meta_p)) if os.path.exists(meta_p) else {}
        meta.update({
            "id": key, "property": pid, "change": what, "needs_to_manifest": needs,
            "author": "independent sub-agent given only the property text and a scratch worktree of /repo",
            "patch": "patch_rebased.diff (re-applied by hand on the later /repo HEAD; patch.diff is the author's original)" if os.path.exists(os.path.join(dst, "patch_rebased.diff")) else "patch.diff",
            "confirmation": parse_validate(open(os.path.join(dst, "validate.txt")).read()),
            "what_i_ran": "tools/seed_validate.sh (demonstration twice on the clean tree and twice on the changed tree, full suite with the change in a private network namespace vs the stable baseline) and tools/seed_recheck.py (not-passed tests re-run on their own); tools/seed_catalog.py matrix (git -C /repo apply, ./check <ID> --tier quick, git -C /repo checkout -- .)",
            "expected_catchers": expect,
        })
        json.dump(meta, open(meta_p, "w"), indent=1)
        print("imported", key)


def do_matrix(keys):
    st = subprocess.run(["git", "-C", "/repo", "status", "--porcelain"], capture_output=True, text=True).stdout.strip()
    if st:
        print("/repo is not clean:", st)
        return 2
    for key in keys or sorted(CAT):
        dst = os.path.join(VERIF, "seeded", key)
        meta_p = os.path.join(dst, "meta.json")
        if not os.path.exists(meta_p):
            continue
        meta = json.load(open(meta_p))
        pf = os.path.join(dst, "patch_rebased.diff")
        if not os.path.exists(pf):
            pf = os.path.join(dst, "patch.diff")
        if key in BASE:
            # the change is judged on the tree it was written for (a later fix: commit removed its effect)
            wt = "/tmp/mut/base_%s" % key
            subprocess.run(["git", "-C", "/repo", "worktree", "add", "-q", "--detach", wt, BASE[key]], check=True)
            res = {}
            try:
                subprocess.run(["git", "-C", wt, "apply", os.path.join(dst, "patch.diff")], check=True)
                env = dict(os.environ, VERIF_REPO=wt, VERIF_REPLAY_DIR="/tmp/mut/matrix-replays")
                for pid in meta["expected_catchers"]:
                    t0 = time.time()
                    q = subprocess.run([os.path.join(VERIF, "check"), pid, "--tier", "quick"], env=env, capture_output=True, text=True)
                    sigs = [l.split(":")[1].strip() for l in q.stdout.splitlines() if l.startswith("violation:")]
                    res[pid] = {"exit": q.returncode, "seconds": round(time.time() - t0), "signatures": sigs[:4]}
            finally:
                subprocess.run(["git", "-C", "/repo", "worktree", "remove", "--force", wt])
            meta["checks_against_repo"] = {"tree": "scratch worktree of /repo at %s (VERIF_REPO), see 'change'" % BASE[key], "tier": "quick", "results": res,
                                           "caught_by": sorted(k for k, v in res.items() if v["exit"] == 1)}
            json.dump(meta, open(meta_p, "w"), indent=1)
            print(key, {k: v["exit"] for k, v in res.items()}, "(on base %s)" % BASE[key])
            continue
        p = subprocess.run(["git", "-C", "/repo", "apply", pf], capture_output=True, text=True)
        if p.returncode:
            print(key, "patch does not apply:", p.stderr[:200])
            meta["checks_against_repo"] = {"error": "patch does not apply to /repo HEAD"}
            json.dump(meta, open(meta_p, "w"), indent=1)
            continue
        res = {}
        try:
            env = dict(os.environ, VERIF_NO_EVIDENCE="1", VERIF_REPLAY_DIR="/tmp/mut/matrix-replays")
            for pid in meta["expected_catchers"]:
                t0 = time.time()
                q = subprocess.run([os.path.join(VERIF, "check"), pid, "--tier", "quick"], env=env, capture_output=True, text=True)
                sigs = [l.split(":")[1].strip() for l in q.stdout.splitlines() if l.startswith("violation:")]
                res[pid] = {"exit": q.returncode, "seconds": round(time.time() - t0), "signatures": sigs[:4]}
        finally:
            subprocess.run(["git", "-C", "/repo", "checkout", "--", "."])
        meta["checks_against_repo"] = {"repo_head": subprocess.run(["git", "-C", "/repo", "rev-parse", "--short", "HEAD"], capture_output=True, text=True).stdout.strip(),
                                       "tier": "quick", "seed": int(os.environ.get("VERIF_SEED", "1")), "results": res,
                                       "caught_by": sorted(k for k, v in res.items() if v["exit"] == 1)}
        json.dump(meta, open(meta_p, "w"), indent=1)
        print(key, {k: v["exit"] for k, v in res.items()})
        sys.stdout.flush()
    return 0


def do_table():
    print("| id | change (independently written) | needs | demonstration clean / changed | suite with change | caught by (quick tier) |")
    print("|---|---|---|---|---|---|")
    for key in sorted(CAT):
        mp = os.path.join(VERIF, "seeded", key, "meta.json")
        if not os.path.exists(mp):
            continue
        m = json.load(open(mp))
        c = m.get("confirmation", {})
        demo = "%s / %s" % ("pass" if c.get("demo_clean_rc") == [0, 0] else c.get("demo_clean_rc"), "fail" if all(c.get("demo_changed_rc") or [0]) else c.get("demo_changed_rc"))
        suite = "%s/3262" % c.get("suite_stable_passed", "?")
        rc = c.get("recheck")
        if rc:
            suite += "; %d re-run alone: %d pass" % (rc["rerun"], rc["passed"])
            if rc.get("still_failing"):
                suite += ", %d fail also on the clean tree then, %d only with the change" % (
                    rc.get("still_failing_also_fail_on_clean_tree_at_the_same_time", 0), rc.get("still_failing_but_pass_on_clean_tree", 0))
        chk = m.get("checks_against_repo", {})
        caught = ", ".join(chk.get("caught_by", [])) or "-"
        missed = [k for k, v in (chk.get("results") or {}).items() if v["exit"] != 1]
        if missed:
            caught += " (not: %s)" % ", ".join(missed)
        print("| %s | %s | %s | %s | %s | %s |" % (key, m["change"].split(" (subsumed")[0][:140], m["needs_to_manifest"][:150], demo, suite, caught))


if __name__ == "__main__":
    if sys.argv[1] == "table":
        do_table()
    elif sys.argv[1] == "import":
        do_import()
    else:
        sys.exit(do_matrix(sys.argv[2:]))
