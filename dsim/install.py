"""Apply the seams: rebind module attributes of pynetdicom and socketserver to
the simulated primitives.  Nothing in /repo is edited; the rebinding happens in
the simulation worker process only."""
import os
import sys
import types

from . import net as N
from . import sched as S
from . import shims

# The checks always run /repo's working tree.  VERIF_REPO is a development
# switch only (sensitivity experiments against a scratch worktree holding a
# seeded change); with it set no evidence is written and replays go to
# $VERIF_REPLAY_DIR.
REPO = os.environ.get("VERIF_REPO", "/repo").rstrip("/")
_done = False
LINE_TOOL = 4
_line_codes = 0


def assert_repo():
    import pynetdicom

    f = pynetdicom.__file__
    if not f.startswith(REPO + "/"):
        raise RuntimeError("pynetdicom is not imported from %s: %s" % (REPO, f))


def install():
    global _done
    if _done:
        return
    _done = True
    import socketserver
    from pynetdicom import dul, association, timer, dimse, fsm, transport, ae

    assert_repo()
    tmod = shims.time_module()
    qmod = shims.queue_module()
    thmod = shims.threading_module()
    smod = N.socket_module()
    selmod = N.select_module()
    for m in (dul, association, timer):
        m.time = tmod
    for m in (dul, dimse, fsm, transport):
        m.queue = qmod
    for m in (association, transport, ae, dimse, socketserver):
        m.threading = thmod
    transport.socket = smod
    ae.socket = smod
    socketserver.socket = smod
    transport.select = selmod
    socketserver._ServerSelector = N.SimSelector
    shims.install_thread_patches()
    # sanity: every seam named in DESIGN 2.3 must exist as a module attribute
    for m, names in (
        (dul, ("time", "queue")),
        (association, ("time", "threading")),
        (timer, ("time",)),
        (dimse, ("queue", "threading")),
        (fsm, ("queue",)),
        (transport, ("queue", "threading", "socket", "select")),
        (ae, ("threading", "socket")),
    ):
        for n in names:
            if not isinstance(getattr(m, n, None), types.ModuleType):
                raise RuntimeError("seam %s.%s missing" % (m.__name__, n))


def _codes_of(mod):
    seen = set()

    def walk(co):
        if co in seen:
            return
        seen.add(co)
        for c in co.co_consts:
            if isinstance(c, types.CodeType):
                walk(c)

    for v in list(vars(mod).values()):
        if isinstance(v, types.FunctionType) and v.__module__ == mod.__name__:
            walk(v.__code__)
        elif isinstance(v, type) and v.__module__ == mod.__name__:
            for a in vars(v).values():
                f = a
                if isinstance(a, property):
                    f = a.fget
                    if a.fset:
                        walk(a.fset.__code__)
                if isinstance(f, (staticmethod, classmethod)):
                    f = f.__func__
                if isinstance(f, types.FunctionType):
                    walk(f.__code__)
    return seen


def install_line_events():
    """Enable LINE events (sys.monitoring) for the code objects of the modules
    in which unsynchronised attribute races live."""
    global _line_codes
    if _line_codes:
        return _line_codes
    from pynetdicom import association, dul, fsm, acse, dimse, transport, service_class, events

    mon = sys.monitoring
    mon.use_tool_id(LINE_TOOL, "dsim")

    def cb(code, line):
        sim = S.SIM
        if sim is not None and sim.line_left >= 0:
            sim.on_line()

    mon.register_callback(LINE_TOOL, mon.events.LINE, cb)
    n = 0
    for m in (association, dul, fsm, acse, dimse, transport, service_class, events):
        for co in sorted(_codes_of(m), key=lambda c: (c.co_filename, c.co_firstlineno, c.co_name)):
            mon.set_local_events(LINE_TOOL, co, mon.events.LINE)
            n += 1
    _line_codes = n
    return n
