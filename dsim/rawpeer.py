"""Scripted byte-level peer (a stub by construction): connects or listens on the
simulated network, writes bytes produced by the independent writer in
ref/wire.py and frames what pynetdicom sends back."""
import struct

from . import net as N
from ref import wire as W


class RawPeer:
    def __init__(self, ctx, name="raw"):
        self.ctx = ctx
        self.sim = ctx.sim
        self.name = name
        self.sock = None
        self.lsock = None
        self.buf = b""
        self.received = []   # (type, payload)
        self.eof = None      # None | "closed" | "reset"
        self.sent = 0
        self.budget = None   # stop sending (stall) after this many bytes
        self.stalled = False
        self.split_at = None  # absolute stream offset at which one send is cut in two
        self.split_gap = 0.0

    # -- connection -------------------------------------------------------------
    def connect(self, port=11112):
        s = N.SimSocket()
        s.label = self.name
        s.connect(("127.0.0.1", port))
        self.sock = s
        return s

    def listen(self, port=11113):
        s = N.SimSocket()
        s.label = self.name + "-listen"
        s.bind(("127.0.0.1", port))
        s.listen(5)
        self.lsock = s
        return s

    def accept(self, timeout=None):
        self.lsock.settimeout(timeout)
        try:
            c, _ = self.lsock.accept()
        except (TimeoutError, OSError):
            return None
        c.label = self.name
        self.sock = c
        return c

    @property
    def cid(self):
        return self.sock._conn.cid if self.sock is not None and self.sock._conn else None

    # -- output -------------------------------------------------------------------
    def send(self, data):
        if self.budget is not None:
            left = self.budget - self.sent
            if left <= 0:
                self.stalled = True
                return False
            if len(data) > left:
                data = data[:left]
                self.stalled = True
        try:
            if self.split_at is not None and self.sent < self.split_at < self.sent + len(data):
                # two-chunk split of the peer's byte stream at an absolute offset, with a gap
                k = self.split_at - self.sent
                self.sock.sendall(data[:k])
                self.sim.count("fault.seg")
                self.sim.sleep(self.split_gap)
                self.sock.sendall(data[k:])
            else:
                self.sock.sendall(data)
            self.sent += len(data)
            return not self.stalled
        except OSError as e:
            self.sim.record("raw_send_error", peer=self.name, exc=type(e).__name__)
            return False

    def send_slow(self, data, cuts, gap):
        """Send `data` cut at the given offsets with `gap` seconds between parts."""
        last = 0
        for c in list(cuts) + [len(data)]:
            if c > last:
                if not self.send(data[last:c]):
                    return False
                last = c
                if c < len(data):
                    self.sim.sleep(gap)
        return True

    # -- input ----------------------------------------------------------------------
    def _fill(self, timeout):
        self.sock.settimeout(timeout)
        try:
            b = self.sock.recv(65536)
        except TimeoutError:
            return "timeout"
        except ConnectionResetError:
            self.eof = "reset"
            return "reset"
        except OSError:
            self.eof = "closed"
            return "closed"
        if not b:
            self.eof = "closed"
            return "closed"
        self.buf += b
        return "data"

    def recv_pdu(self, timeout=1.0):
        """Next complete PDU as (type, payload); or the string 'timeout',
        'closed' or 'reset'."""
        deadline = self.sim.now + timeout
        while True:
            if len(self.buf) >= 6:
                t, _, ln = struct.unpack(">BBL", self.buf[:6])
                if len(self.buf) >= 6 + ln:
                    p = (t, self.buf[6:6 + ln])
                    self.buf = self.buf[6 + ln:]
                    self.received.append(p)
                    return p
            if self.eof:
                return self.eof
            rem = deadline - self.sim.now
            if rem <= 0:
                return "timeout"
            st = self._fill(rem)
            if st in ("timeout",):
                return "timeout"

    def recv_until(self, types, timeout=1.0, limit=200):
        """Read PDUs until one of `types` arrives; returns that PDU or a status string."""
        deadline = self.sim.now + timeout
        for _ in range(limit):
            rem = deadline - self.sim.now
            if rem <= 0:
                return "timeout"
            p = self.recv_pdu(rem)
            if isinstance(p, str):
                return p
            if p[0] in types:
                return p
        return "limit"

    def drain(self, timeout=0.5):
        """Read until close/reset/timeout; returns the terminal status."""
        while True:
            p = self.recv_pdu(timeout)
            if isinstance(p, str):
                return p

    def close(self):
        if self.sock is not None:
            self.sock.close()
        if self.lsock is not None:
            self.lsock.close()

    def reset(self):
        """Abortive close (RST)."""
        if self.sock is not None and self.sock._conn is not None:
            N.NET.reset_conn(self.sock._conn)
            self.sock._closed = True
            self.sim.count("fault.reset")

    # -- canned exchanges -------------------------------------------------------------
    def associate(self, contexts, port=11112, timeout=1.0, **kw):
        """Connect, send an A-ASSOCIATE-RQ, read the answer.  Returns the parsed
        A-ASSOCIATE-AC dict, or ('rj', dict) / status string."""
        if self.sock is None:
            self.connect(port)
        self.send(W.associate_rq(contexts=contexts, **kw))
        p = self.recv_pdu(timeout)
        if isinstance(p, str):
            return p
        if p[0] == 2:
            return W.parse_associate(p[1])
        if p[0] == 3:
            return ("rj", W.parse_rj(p[1]))
        return ("pdu", p)

    def accept_association(self, timeout=1.0, results=None, max_len=16382, **kw):
        """As acceptor: read the A-ASSOCIATE-RQ and accept every context with
        its first transfer syntax (or the given results)."""
        p = self.recv_pdu(timeout)
        if isinstance(p, str) or p[0] != 1:
            return p
        rq = W.parse_associate(p[1])
        if results is None:
            results = [(pc["id"], 0, pc["transfer"][0]) for pc in rq["pcs"]]
        self.send(W.associate_ac(results=results, max_len=max_len, **kw))
        return rq
