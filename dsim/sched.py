"""Deterministic scheduler: real threads, one baton, virtual time.

Exactly one simulated thread executes code of the system under test at any
moment; all others are parked on a private real lock.  A thread gives up the
baton only inside a *yield point* (an operation on a simulated primitive, or a
sampled LINE event).  Every choice the scheduler or the simulated network makes
is an integer obtained from :meth:`Sim.draw`; the list of those integers is the
*decision log*.  ``draw`` is written so that the value 0 is always the most
benign choice (keep running the current thread, no delay, no short write), which
makes "replace a suffix of the log by zeros" a meaningful simplification.
"""
import hashlib
import heapq
import random
import sys
import threading as _rt
import traceback

_real_Thread_start = _rt.Thread.start
_real_Thread_join = _rt.Thread.join
_real_Thread_is_alive = _rt.Thread.is_alive
_real_enumerate = _rt.enumerate


class SimAbort(BaseException):
    """Raised inside simulated threads to unwind them when a run is torn down."""


class Divergence(Exception):
    """A replayed decision log does not fit the execution (harness error)."""


class Task:
    __slots__ = (
        "sim", "tid", "thread", "lock", "state", "wake_at", "wait_obj",
        "timed_out", "exc", "exc_tb", "name", "stall_until", "sleep_factor",
        "role", "exit_t", "exit_seq", "start_t",
    )

    def __init__(self, sim, tid, thread):
        self.sim = sim
        self.tid = tid
        self.thread = thread
        self.lock = _rt.Lock()
        self.lock.acquire()
        self.state = "runnable"  # runnable | blocked | done
        self.wake_at = None
        self.wait_obj = None
        self.timed_out = False
        self.exc = None
        self.exc_tb = None
        self.name = "T%d" % tid
        self.role = None
        self.stall_until = 0.0
        self.sleep_factor = 1.0
        self.exit_t = None
        self.exit_seq = None
        self.start_t = sim.now


DEFAULT_CFG = {
    "switch_pct": 30,       # probability (percent) of leaving the current thread at a yield point
    "line_gap": 0,          # mean number of LINE events between line-level pre-emptions (0 = off)
    "sleep_jitter_pct": 0,  # per-thread oversleep factor up to this percentage
    "low_prio": None,       # list of role prefixes that are starved (see _pick)
    "low_prio_pct": 90,
    "max_steps": 400000,
    "max_time": 600.0,
}

STREAMS = ("sched", "net", "fault", "line")


class Sim:
    def __init__(self, seed, cfg=None, replay=None, lenient=False):
        self.seed = seed
        self.cfg = dict(DEFAULT_CFG)
        if cfg:
            self.cfg.update(cfg)
        self.rngs = {
            s: random.Random("%s/%s" % (seed, s)) for s in STREAMS
        }
        self.replay = list(replay) if replay is not None else None
        self.lenient = lenient
        self.ri = 0
        self.decisions = []
        self.dec_n = []
        self.now = 0.0
        self.wall_offset = 1.7e9
        self.tasks = []
        self.cur = None
        self.seq = 0
        self.nswitch = 0
        self.timers = []
        self.tseq = 0
        self.h = hashlib.sha256()
        self.killed = False
        self.main_lock = _rt.Lock()
        self.main_lock.acquire()
        self.failure = None
        self.failure_info = None
        self.hist = []
        self.log_lines = None  # set to [] to keep a readable event log
        self.namer = None
        self.line_left = -1
        self.line_hits = 0
        self.line_preempts = 0
        self.counters = {}
        self.harness_error = None
        self.nopreempt = 0
        self._set_line_gap()

    # ------------------------------------------------------------ decisions
    def draw(self, stream, n):
        """Return an integer in [0, n); 0 is the benign default."""
        if n <= 1:
            return 0
        if self.replay is not None:
            if self.ri < len(self.replay):
                v = self.replay[self.ri]
                self.ri += 1
                if v >= n or v < 0:
                    if not self.lenient:
                        raise Divergence(
                            "decision %d: value %d out of range %d" % (self.ri - 1, v, n)
                        )
                    v = v % n
            else:
                if not self.lenient:
                    raise Divergence("decision log exhausted at %d" % self.ri)
                v = 0
        else:
            v = self.rngs[stream].randrange(n)
        self.decisions.append(v)
        self.dec_n.append(n)
        return v

    def chance(self, stream, pct):
        """True with probability pct/100; the benign default (0) is False."""
        if pct <= 0:
            return False
        return self.draw(stream, 100) >= 100 - pct

    def count(self, key, n=1):
        self.counters[key] = self.counters.get(key, 0) + n

    # ------------------------------------------------------------ logging
    def log(self, *a):
        s = repr(a)
        self.h.update(s.encode())
        if self.log_lines is not None:
            self.log_lines.append("%d %.6f %s" % (self.seq, self.now, s))

    def record(self, kind, **data):
        """Append an observable to the history (stamped with the global event
        sequence number and virtual time)."""
        me = self.current()
        ent = {"seq": self.seq, "t": round(self.now, 9), "tid": me.tid if me else -1, "kind": kind}
        ent.update(data)
        self.hist.append(ent)
        self.h.update(repr(sorted((k, repr(v)) for k, v in ent.items())).encode())
        return ent

    # ------------------------------------------------------------ timers
    def after(self, delay, fn):
        self.tseq += 1
        heapq.heappush(self.timers, (self.now + delay, self.tseq, fn))

    def at(self, when, fn):
        self.tseq += 1
        heapq.heappush(self.timers, (max(when, self.now), self.tseq, fn))

    # ------------------------------------------------------------ tasks
    def spawn_thread(self, thread):
        t = Task(self, len(self.tasks), thread)
        self.tasks.append(t)
        thread._sim_task = t
        if self.namer is not None:
            self.nopreempt += 1
            try:
                t.role = self.namer(thread, t)
            except Exception:  # pragma: no cover
                t.role = None
            finally:
                self.nopreempt -= 1
        if self.cfg["sleep_jitter_pct"]:
            t.sleep_factor = 1.0 + self.draw("sched", 9) / 8.0 * self.cfg["sleep_jitter_pct"] / 100.0
        orig_run = thread.run
        sim = self

        def run():
            t.lock.acquire()  # park until first scheduled
            try:
                if not sim.killed:
                    orig_run()
            except SimAbort:
                pass
            except BaseException as e:  # noqa: BLE001
                t.exc = e
                t.exc_tb = traceback.format_exc()
                sim.log("died", t.tid, type(e).__name__)
                sim.record("thread_died", task=t.tid, role=t.role, exc=type(e).__name__, msg=str(e)[:200])
            finally:
                t.state = "done"
                t.exit_t = sim.now
                t.exit_seq = sim.seq
                sim.log("exit", t.tid)
                sim._wake_obj(thread)
                try:
                    sim._handoff(None)
                except SimAbort:
                    pass
                except BaseException as e:  # pragma: no cover
                    sim.harness_error = "handoff at exit: %r" % (e,)
                    sim._release_main()

        thread.run = run
        self.log("spawn", t.tid, t.role)
        _real_Thread_start(thread)
        return t

    def _wake_obj(self, obj, n=None):
        c = 0
        for t in self.tasks:
            if t.state == "blocked" and t.wait_obj is obj:
                t.state = "runnable"
                t.wait_obj = None
                t.wake_at = None
                c += 1
                if n is not None and c >= n:
                    break
        return c

    wake = _wake_obj

    def _release_main(self):
        try:
            self.main_lock.release()
        except RuntimeError:
            pass

    def _runnable(self):
        now = self.now
        return [t for t in self.tasks if t.state == "runnable" and t.stall_until <= now]

    def _pick(self, prefer=None):
        while True:
            runnable = self._runnable()
            low = self.cfg.get("low_prio")
            if runnable and low and len(runnable) > 1:
                # priority scheduling (PCT flavour): threads whose role starts with one of the `low_prio`
                # prefixes only run when nothing else can, except with probability 100-low_prio_pct
                normal = [t for t in runnable if not (t.role or "").startswith(tuple(low))]
                if normal and len(normal) < len(runnable) and not self.chance("sched", 100 - self.cfg.get("low_prio_pct", 90)):
                    runnable = normal
                    if prefer is not None and prefer not in normal:
                        prefer = None
            if runnable:
                if prefer is not None and prefer.state == "runnable" and prefer.stall_until <= self.now:
                    if len(runnable) == 1:
                        return prefer
                    if not self.chance("sched", self.cfg["switch_pct"]):
                        return prefer
                    others = [t for t in runnable if t is not prefer]
                    return others[self.draw("sched", len(others))]
                return runnable[self.draw("sched", len(runnable))]
            # nothing runnable: advance virtual time to the earliest wake-up
            nxt = None
            for t in self.tasks:
                if t.state == "blocked" and t.wake_at is not None:
                    if nxt is None or t.wake_at < nxt:
                        nxt = t.wake_at
                elif t.state == "runnable" and t.stall_until > self.now:
                    if nxt is None or t.stall_until < nxt:
                        nxt = t.stall_until
            if self.timers and (nxt is None or self.timers[0][0] <= nxt):
                when, _, fn = heapq.heappop(self.timers)
                if when > self.now:
                    self.now = when
                fn()
                continue
            if nxt is None:
                return None
            if nxt > self.now:
                self.now = nxt
            if self.now > self.cfg["max_time"] and not self.killed:
                self.failure = "capped-time"
                self.failure_info = self._stuck_info()
                self._kill_all()
                continue
            for t in self.tasks:
                if t.state == "blocked" and t.wake_at is not None and t.wake_at <= self.now:
                    t.state = "runnable"
                    t.timed_out = True
                    t.wake_at = None
                    t.wait_obj = None

    def _handoff(self, me):
        """Choose the next task and run it; park `me` (if given) until rescheduled."""
        self.seq += 1
        if self.seq > self.cfg["max_steps"] and not self.killed:
            self.failure = "capped-steps"
            self.failure_info = self._stuck_info()
            self._kill_all()
        nxt = self._pick(prefer=me if (me is not None and me.state == "runnable") else None)
        if nxt is None:
            if all(t.state == "done" for t in self.tasks):
                self.cur = None
                self._release_main()
                if me is not None:
                    raise SimAbort()
                return
            if not self.killed:
                self.failure = "stuck"
                self.failure_info = self._stuck_info()
                self._kill_all()
                nxt = self._pick()
            if nxt is None:
                self.cur = None
                self._release_main()
                if me is not None:
                    raise SimAbort()
                return
        self.h.update(b"r%d" % nxt.tid)
        if nxt is me:
            return
        self.nswitch += 1
        self.cur = nxt
        nxt.lock.release()
        if me is not None:
            me.lock.acquire()
            if self.killed:
                raise SimAbort()

    def _stuck_info(self):
        frames = sys._current_frames()
        out = []
        for t in self.tasks:
            if t.state == "done":
                continue
            fr = frames.get(t.thread.ident)
            stack = []
            if fr is not None:
                for fs in traceback.extract_stack(fr)[-14:]:
                    fn = fs.filename
                    if "/dsim/" in fn or fn.endswith("threading.py"):
                        continue
                    stack.append("%s:%d:%s" % (fn.split("/")[-1], fs.lineno, fs.name))
            out.append({"task": t.tid, "role": t.role, "state": t.state, "stack": stack[-8:]})
        return out

    def _kill_all(self):
        self.killed = True
        for t in self.tasks:
            if t.state == "blocked":
                t.state = "runnable"
                t.wake_at = None
                t.wait_obj = None
            t.stall_until = 0.0

    def current(self):
        return getattr(_rt.current_thread(), "_sim_task", None)

    def in_sim(self):
        t = getattr(_rt.current_thread(), "_sim_task", None)
        return t is not None and t.sim is self and t.state != "done"

    def yield_(self):
        me = self.current()
        if me is None or me.sim is not self:
            return
        if self.killed:
            raise SimAbort()
        self._handoff(me)

    def block(self, obj, timeout=None):
        """Block the current task on `obj` until woken or `timeout` (virtual
        seconds).  Returns True if woken, False on timeout."""
        me = self.current()
        if self.killed:
            raise SimAbort()
        me.state = "blocked"
        me.wait_obj = obj
        me.timed_out = False
        me.wake_at = None if timeout is None else self.now + max(timeout, 0.0)
        self._handoff(me)
        return not me.timed_out

    def sleep(self, d):
        me = self.current()
        f = me.sleep_factor if me is not None else 1.0
        self.block(None, max(d, 0.0) * f)

    def stall(self, task, duration):
        """Fault: do not schedule `task` for `duration` virtual seconds."""
        task.stall_until = max(task.stall_until, self.now + duration)
        self.count("fault.thread_stall")

    # ------------------------------------------------------------ line events
    def _set_line_gap(self):
        g = self.cfg["line_gap"]
        if not g:
            self.line_left = -1
            return
        v = self.draw("line", 2 * g)
        self.line_left = v if v > 0 else -1

    def on_line(self):
        """Called from the sys.monitoring LINE callback of instrumented code."""
        if self.line_left < 0 or self.killed or self.nopreempt:
            return
        t = getattr(_rt.current_thread(), "_sim_task", None)
        if t is None or t is not self.cur or t.state != "runnable":
            return
        self.line_hits += 1
        self.line_left -= 1
        if self.line_left > 0:
            return
        self.line_preempts += 1
        self._set_line_gap()
        self._handoff(t)

    # ------------------------------------------------------------ running
    def run(self, main_fn, name="main"):
        th = _rt.Thread(target=main_fn, name="sim-" + name)
        self.spawn_thread(th)
        first = self._pick()
        self.cur = first
        first.lock.release()
        self.main_lock.acquire()
        if self.replay is not None and not self.lenient and self.ri != len(self.replay):
            raise Divergence("decision log not consumed: %d of %d" % (self.ri, len(self.replay)))
        return self.h.hexdigest()

    def died(self):
        return [t for t in self.tasks if t.exc is not None]


SIM = None  # the simulator of the run in progress (one per process at a time)


def cur_sim():
    return SIM


def set_sim(s):
    global SIM
    SIM = s
