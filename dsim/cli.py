"""Command line: check <ID> --tier quick|thorough | --replay <file> | --digests ..."""
import os
import sys

VERIF = os.path.dirname(os.path.dirname(os.path.abspath(__file__)))
if VERIF not in sys.path:
    sys.path.insert(0, VERIF)
REPO = os.environ.get("VERIF_REPO", "/repo").rstrip("/")
if REPO != "/repo":
    os.environ["VERIF_NO_EVIDENCE"] = "1"
    os.environ.setdefault("VERIF_REPLAY_DIR", "/tmp/verif-replays-" + REPO.strip("/").replace("/", "_"))
if REPO not in sys.path:
    sys.path.insert(0, REPO)


def main(argv):
    from dsim import runner

    if argv and argv[0] == "--replay":
        rc = runner.replay_file(argv[1])
        sys.stdout.flush()
        os._exit(rc)
    if argv and argv[0] == "--digests":
        runner.digests_cli(argv[1], argv[2], int(argv[3]), [int(x) for x in argv[4].split(",") if x])
    pid = argv[0]
    tier = os.environ.get("VERIF_TIER", "quick")
    if "--tier" in argv:
        tier = argv[argv.index("--tier") + 1]
    if "--replay" in argv:
        rc = runner.replay_file(argv[argv.index("--replay") + 1])
        sys.stdout.flush()
        os._exit(rc)
    seed = int(os.environ.get("VERIF_SEED", "1"))
    try:
        rc = runner.run_check(pid, tier, seed)
    except SystemExit:
        raise
    except BaseException:  # noqa: BLE001
        import traceback

        traceback.print_exc()
        rc = 2
    sys.stdout.flush()
    sys.stderr.flush()
    os._exit(rc)


if __name__ == "__main__":
    main(sys.argv[1:])
