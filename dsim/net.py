"""Simulated TCP: listeners, connections as two byte pipes, socket / select /
selector look-alikes, a wire tap and byte-offset faults.

TCP semantics kept: ordered, lossless byte streams; arbitrary segmentation;
short writes; FIN / RST; blocking, timeout and non-blocking modes; accepted
sockets are blocking regardless of the listener's timeout.
"""
import errno
import select as _rsel
import socket as _rs

from . import sched as S
from .shims import make_proxy

DEFAULT_NET = {
    "seg": "whole",            # whole | random | dribble
    "seg_pct": 40,             # random mode: chance to cut a segment again
    "delays": [0.0, 0.0001, 0.0005, 0.002],  # per-segment extra latency choices (index 0 = benign)
    "latency": 0.0001,         # base one-way latency
    "dribble_gap": 0.0005,     # dribble mode: gap between segments
    "dribble_max": 1,          # dribble mode: max bytes per segment
    "short_write_pct": 0,      # chance that send() accepts only a prefix
    "connect_delay": 0.0,
    "faults": [],              # [{conn, dir, kind: stall|reset, at}]
    "refuse_ports": [],        # connection attempts to these ports are refused
    "blackhole_ports": [],     # connection attempts to these ports never complete
    "shutdown_enotconn": True,  # shutdown() after RST raises ENOTCONN (Linux)
    "recv_cost": 0.0,          # virtual seconds a successful recv() costs its caller (models the CPU time of taking a
                               # segment off the socket; 0 = computation is free, so a flooding peer can never outpace a timer)
    "pipe_capacity": None,     # flow control: max bytes written but not yet read by the receiving application
                               # (send buffer + receive window); None = unlimited.  When full, send() blocks
                               # (TimeoutError after the socket timeout, BlockingIOError when non-blocking)
}


class Pipe:
    """One direction of a connection."""

    __slots__ = (
        "conn", "dir", "buf", "last", "eof", "reset", "sent", "delivered",
        "consumed", "blackhole", "last_delivery_t", "faults", "rx_sock", "space",
    )

    def __init__(self, conn, direction):
        self.conn = conn
        self.dir = direction
        self.buf = bytearray()
        self.last = 0.0
        self.eof = False
        self.reset = False
        self.sent = 0
        self.delivered = 0
        self.consumed = 0
        self.blackhole = False
        self.last_delivery_t = None
        self.faults = []
        self.rx_sock = None
        self.space = object()   # writers blocked by flow control wait on this


class Conn:
    def __init__(self, cid, client, server):
        self.cid = cid
        self.client = client
        self.server = server
        self.c2s = Pipe(self, "c2s")
        self.s2c = Pipe(self, "s2c")
        self.stalled = False


class Net:
    def __init__(self, sim, cfg=None):
        self.sim = sim
        self.cfg = dict(DEFAULT_NET)
        if cfg:
            self.cfg.update(cfg)
        self.listeners = {}
        self.conns = []
        self.socks = []
        self.wire = []
        self.next_fd = 1000
        self.next_port = 40000
        self.sel_obj = object()

    # wire tap ---------------------------------------------------------------
    def tap(self, pipe, data):
        self.wire.append(
            {"seq": self.sim.seq, "t": self.sim.now, "conn": pipe.conn.cid, "dir": pipe.dir, "data": bytes(data)}
        )
        self.sim.h.update(b"w%d%s%d" % (pipe.conn.cid, pipe.dir.encode(), len(data)))

    def stream(self, cid, direction):
        return b"".join(w["data"] for w in self.wire if w["conn"] == cid and w["dir"] == direction)

    # pipe operations --------------------------------------------------------
    def _deliver(self, pipe, part):
        def fn():
            if pipe.reset:
                return
            pipe.buf.extend(part)
            pipe.delivered += len(part)
            pipe.last_delivery_t = self.sim.now
            self.sim.wake(pipe)
            self.sim.wake(self.sel_obj)

        return fn

    def _schedule(self, pipe, delay, fn):
        when = max(pipe.last, self.sim.now + delay)
        pipe.last = when
        self.sim.at(when, fn)

    def push(self, pipe, chunk):
        sim = self.sim
        cfg = self.cfg
        if pipe.blackhole:
            # already stalled: nothing gets through any more (a second fault on this pipe has nothing left to cut)
            pipe.sent += len(chunk)
            return
        # byte-offset faults
        for f in list(pipe.faults):
            at = f["at"]
            if pipe.sent <= at < pipe.sent + len(chunk) or (at <= pipe.sent):
                keep = max(0, at - pipe.sent)
                head, chunk = chunk[:keep], b""
                pipe.faults.remove(f)
                if head:
                    pipe.sent += len(head)
                    self._segments(pipe, head)
                sim.count("fault." + f["kind"])
                sim.record("net_fault", fault=f["kind"], conn=pipe.conn.cid, dir=pipe.dir, at=at)
                if f["kind"] == "stall":
                    pipe.conn.stalled = True
                    pipe.conn.c2s.blackhole = True
                    pipe.conn.s2c.blackhole = True
                elif f["kind"] == "reset":
                    self.reset_conn(pipe.conn)
                return
        if pipe.blackhole:
            pipe.sent += len(chunk)
            return
        pipe.sent += len(chunk)
        self._segments(pipe, chunk)

    def _segments(self, pipe, chunk):
        sim = self.sim
        cfg = self.cfg
        mode = cfg["seg"]
        delay = cfg["latency"]
        if mode == "whole" or len(chunk) == 0:
            self._schedule(pipe, delay, self._deliver(pipe, chunk))
            return
        off = 0
        n = len(chunk)
        if mode == "dribble":
            while off < n:
                seg = 1 + sim.draw("net", cfg["dribble_max"]) if cfg["dribble_max"] > 1 else 1
                seg = min(seg, n - off)
                self._schedule(pipe, delay, self._deliver(pipe, chunk[off:off + seg]))
                delay += cfg["dribble_gap"]
                off += seg
            sim.count("fault.dribble")
            return
        delays = cfg["delays"]
        while off < n:
            rest = n - off
            if rest > 1 and sim.chance("net", cfg["seg_pct"]):
                seg = 1 + sim.draw("net", rest - 1)
                sim.count("fault.seg")
            else:
                seg = rest
            k = sim.draw("net", len(delays))
            if k:
                sim.count("fault.delay")
            delay += delays[k]
            self._schedule(pipe, delay, self._deliver(pipe, chunk[off:off + seg]))
            off += seg

    def fin(self, pipe):
        def fn():
            pipe.eof = True
            self.sim.wake(pipe)
            self.sim.wake(self.sel_obj)

        if pipe.blackhole:
            return
        self._schedule(pipe, self.cfg["latency"], fn)

    def reset_conn(self, conn):
        for p in (conn.c2s, conn.s2c):
            p.reset = True
            self.sim.wake(p)
            self.sim.wake(p.space)
        self.sim.wake(self.sel_obj)

    def add_fault(self, cid, direction, kind, at):
        """Register a byte-offset fault for a connection that may not exist yet."""
        self.cfg["faults"].append({"conn": cid, "dir": direction, "kind": kind, "at": at})
        if cid < len(self.conns):
            p = getattr(self.conns[cid], direction)
            p.faults.append({"kind": kind, "at": at})

    def open_sockets(self):
        return [s for s in self.socks if not s._closed]


NET = None


def set_net(n):
    global NET
    NET = n


class SimSocket:
    def __init__(self, family=_rs.AF_INET, type=_rs.SOCK_STREAM, proto=0, fileno=None):
        net = NET
        self.net = net
        self.family = family
        self.type = type
        self.proto = proto
        self._fd = net.next_fd
        net.next_fd += 1
        self._timeout = None
        self._addr = None
        self._peer = None
        self._listening = False
        self._backlog = []
        self._rx = None
        self._tx = None
        self._conn = None
        self._closed = False
        self._shut_wr = False
        self._shut_rd = False
        self._sent_after_peer_close = False
        self.label = None
        net.socks.append(self)

    def __repr__(self):
        return "<SimSocket fd=%d %s>" % (self._fd, "closed" if self._closed else "open")

    # -- options
    def setsockopt(self, *a):
        if self._closed:
            raise OSError(errno.EBADF, "Bad file descriptor")

    def getsockopt(self, *a):
        return 0

    def settimeout(self, t):
        if self._closed:
            raise OSError(errno.EBADF, "Bad file descriptor")
        self._timeout = t

    def gettimeout(self):
        return self._timeout

    def setblocking(self, f):
        self._timeout = None if f else 0.0

    def fileno(self):
        return -1 if self._closed else self._fd

    def bind(self, addr):
        host, port = addr[0], addr[1]
        if port == 0:
            port = self.net.next_port
            self.net.next_port += 1
        self._addr = (host or "0.0.0.0", port)

    def getsockname(self):
        if self._closed:
            raise OSError(errno.EBADF, "Bad file descriptor")
        return self._addr or ("0.0.0.0", 0)

    def getpeername(self):
        if self._peer is None:
            raise OSError(errno.ENOTCONN, "not connected")
        return self._peer

    def listen(self, n=5):
        self._listening = True
        self.net.listeners[self._addr[1]] = self

    def _wait(self, obj):
        """Block according to the socket timeout; False on timeout."""
        sim = self.net.sim
        if self._timeout is None:
            sim.block(obj, None)
            return True
        if self._timeout == 0:
            return False
        return sim.block(obj, self._timeout)

    def accept(self):
        sim = self.net.sim
        sim.yield_()
        while not self._backlog:
            if self._closed:
                raise OSError(errno.EBADF, "Bad file descriptor")
            if self._timeout == 0:
                raise BlockingIOError(errno.EAGAIN, "would block")
            if not self._wait(self):
                raise TimeoutError("timed out")
        c = self._backlog.pop(0)
        return c, c._peer

    def connect(self, addr):
        net = self.net
        sim = net.sim
        sim.yield_()
        if self._closed:
            raise OSError(errno.EBADF, "Bad file descriptor")
        if self._addr is None:
            self.bind(("127.0.0.1", 0))
        elif self._addr[1] == 0:
            self.bind((self._addr[0], 0))
        port = addr[1]
        if port in net.cfg["blackhole_ports"]:
            sim.count("fault.conn_timeout")
            t = self._timeout if self._timeout is not None else 127.0
            sim.block(None, t)
            raise TimeoutError("timed out")
        if net.cfg["connect_delay"]:
            sim.block(None, net.cfg["connect_delay"])
        lst = net.listeners.get(port)
        if lst is None or lst._closed or port in net.cfg["refuse_ports"]:
            if port in net.cfg["refuse_ports"]:
                sim.count("fault.refuse")
            raise ConnectionRefusedError(errno.ECONNREFUSED, "Connection refused")
        srv = SimSocket()
        conn = Conn(len(net.conns), self, srv)
        net.conns.append(conn)
        for f in net.cfg["faults"]:
            if f["conn"] == conn.cid:
                getattr(conn, f["dir"]).faults.append({"kind": f["kind"], "at": f["at"]})
        self._conn = srv._conn = conn
        self._tx, srv._rx = conn.c2s, conn.c2s
        srv._tx, self._rx = conn.s2c, conn.s2c
        conn.c2s.rx_sock = srv
        conn.s2c.rx_sock = self
        self._peer = (addr[0], port)
        srv._addr = lst._addr
        srv._peer = self._addr
        lst._backlog.append(srv)
        sim.record("net_connect", conn=conn.cid, port=port)
        sim.wake(lst)
        sim.wake(net.sel_obj)

    def connect_ex(self, addr):
        try:
            self.connect(addr)
        except OSError as e:
            return e.errno or 1
        return 0

    def send(self, data, flags=0):
        net = self.net
        sim = net.sim
        sim.yield_()
        peer = self._tx.rx_sock if self._tx is not None else None
        gone = peer is not None and peer._closed and not self._tx.blackhole and self._sent_after_peer_close
        if self._closed or self._tx is None or self._shut_wr or self._tx.reset or gone:
            sim.record("send_fail", fd=self._fd)
        if self._closed:
            raise OSError(errno.EBADF, "Bad file descriptor")
        if self._tx is None:
            raise OSError(errno.ENOTCONN, "not connected")
        if self._shut_wr:
            raise BrokenPipeError(errno.EPIPE, "Broken pipe")
        if self._tx.reset:
            raise ConnectionResetError(errno.ECONNRESET, "Connection reset by peer")
        data = bytes(data)
        if peer is not None and peer._closed and not self._tx.blackhole:
            # peer is gone: the first write is accepted, the RST that answers
            # it makes later operations fail
            if self._sent_after_peer_close:
                raise BrokenPipeError(errno.EPIPE, "Broken pipe")
            self._sent_after_peer_close = True
            net.tap(self._tx, data)
            self._tx.sent += len(data)
            if self._rx is not None:
                self._rx.reset = True
            return len(data)
        n = len(data)
        cap = net.cfg.get("pipe_capacity")
        if cap is not None and n:
            pipe = self._tx
            # (a black-holed connection hides the peer's close as well: the sender just stays blocked)
            while pipe.sent - pipe.consumed >= cap and not (peer is not None and peer._closed and not pipe.blackhole):
                sim.count("net.send_blocked")
                if self._timeout == 0:
                    raise BlockingIOError(errno.EAGAIN, "would block")
                if not self._wait(pipe.space):
                    sim.count("net.send_timeout")
                    sim.record("send_timeout", fd=self._fd)
                    raise TimeoutError("timed out")
                if self._closed:
                    raise OSError(errno.EBADF, "Bad file descriptor")
                if pipe.reset:
                    raise ConnectionResetError(errno.ECONNRESET, "Connection reset by peer")
            if peer is not None and peer._closed and not pipe.blackhole:
                # the receiver went away while we were blocked (unread data at its end => RST)
                sim.record("send_fail", fd=self._fd)
                raise ConnectionResetError(errno.ECONNRESET, "Connection reset by peer")
            n = min(n, cap - (pipe.sent - pipe.consumed))
        if n > 1 and net.cfg["short_write_pct"] and sim.chance("net", net.cfg["short_write_pct"]):
            n = 1 + sim.draw("net", n - 1)
            sim.count("fault.short_write")
        chunk = data[:n]
        net.tap(self._tx, chunk)
        net.push(self._tx, chunk)
        return n

    def sendall(self, data, flags=0):
        off = 0
        data = bytes(data)
        while off < len(data):
            off += self.send(data[off:])

    def recv(self, n, flags=0):
        net = self.net
        sim = net.sim
        sim.yield_()
        if self._closed:
            raise OSError(errno.EBADF, "Bad file descriptor")
        if self._rx is None:
            raise OSError(errno.ENOTCONN, "not connected")
        pipe = self._rx
        while not pipe.buf:
            if pipe.reset:
                raise ConnectionResetError(errno.ECONNRESET, "Connection reset by peer")
            if pipe.eof or self._shut_rd:
                return b""
            if self._closed:
                raise OSError(errno.EBADF, "Bad file descriptor")
            if self._timeout == 0:
                raise BlockingIOError(errno.EAGAIN, "would block")
            if not self._wait(pipe):
                raise TimeoutError("timed out")
        k = min(n, len(pipe.buf))
        out = bytes(pipe.buf[:k])
        del pipe.buf[:k]
        pipe.consumed += k
        if net.cfg.get("pipe_capacity") is not None:
            sim.wake(pipe.space)
        if net.cfg.get("recv_cost") and self.label is None:
            # only sockets of the system under test pay (the scripted peer's sockets carry a label)
            sim.block(None, net.cfg["recv_cost"])
        return out

    def shutdown(self, how):
        net = self.net
        if self._closed:
            raise OSError(errno.EBADF, "Bad file descriptor")
        if self._tx is None:
            raise OSError(errno.ENOTCONN, "Transport endpoint is not connected")
        if (self._tx.reset or self._rx.reset) and net.cfg["shutdown_enotconn"]:
            raise OSError(errno.ENOTCONN, "Transport endpoint is not connected")
        if how in (_rs.SHUT_WR, _rs.SHUT_RDWR) and not self._shut_wr:
            self._shut_wr = True
            net.fin(self._tx)
        if how in (_rs.SHUT_RD, _rs.SHUT_RDWR):
            self._shut_rd = True
            net.sim.wake(self._rx)

    def close(self):
        net = self.net
        if self._closed:
            return
        self._closed = True
        net.sim.record("sock_close", fd=self._fd, label=self.label)
        if self._listening:
            if net.listeners.get(self._addr[1]) is self:
                del net.listeners[self._addr[1]]
            net.sim.wake(self)
        if self._tx is not None:
            if not self._shut_wr:
                self._shut_wr = True
                net.fin(self._tx)
            net.sim.wake(self._rx)
            net.sim.wake(self._rx.space)   # a peer blocked in send() towards us: its write now fails
            net.sim.wake(self._tx.space)
        net.sim.wake(net.sel_obj)

    def detach(self):
        self._closed = True
        return self._fd

    def readable(self):
        if self._listening:
            return bool(self._backlog)
        if self._rx is None:
            return False
        return bool(self._rx.buf) or self._rx.eof or self._rx.reset or self._shut_rd

    def __enter__(self):
        return self

    def __exit__(self, *a):
        self.close()


def sim_select(r, w, x, timeout=None):
    net = NET
    sim = net.sim
    sim.yield_()
    deadline = None if timeout is None else sim.now + timeout
    while True:
        for s in r:
            if s.fileno() < 0:
                raise ValueError("file descriptor cannot be a negative integer (-1)")
        ready = [s for s in r if s.readable()]
        if ready or timeout == 0:
            return ready, [], []
        rem = None if deadline is None else deadline - sim.now
        if rem is not None and rem <= 0:
            return [], [], []
        sim.block(net.sel_obj, rem)


class SimSelector:
    def __init__(self):
        self._objs = []

    def __enter__(self):
        return self

    def __exit__(self, *a):
        pass

    def register(self, fileobj, events, data=None):
        self._objs.append(fileobj)

    def unregister(self, fileobj):
        self._objs.remove(fileobj)

    def close(self):
        pass

    def select(self, timeout=None):
        net = NET
        sim = net.sim
        pairs = [(o, getattr(o, "socket", o)) for o in self._objs]
        pairs = [(o, s) for o, s in pairs if s is not None and s.fileno() >= 0]
        if not pairs:
            sim.block(None, timeout if timeout is not None else 0.5)
            return []
        r, _, _ = sim_select([s for _, s in pairs], [], [], timeout)
        return [(o, 1) for o, s in pairs if s in r]


def getaddrinfo(host, port, family=0, type=0, proto=0, flags=0):
    if host is None or host == "":
        host = "0.0.0.0"
    if host == "localhost":
        host = "127.0.0.1"
    if host == "<broadcast>":
        host = "255.255.255.255"
    return [(_rs.AF_INET, _rs.SOCK_STREAM, 6, "", (host, port or 0))]


def socket_module():
    return make_proxy(_rs, socket=SimSocket, getaddrinfo=getaddrinfo, create_connection=None)


def select_module():
    return make_proxy(_rsel, select=sim_select)
