"""Run one scenario of one property inside the simulator and collect what the
oracles need: history, wire tap, thread table, socket table, observations."""
import faulthandler
import logging
import os
import sys
import time as _rtime

from . import install as I
from . import net as N
from . import sched as S

_NOTIF = None


def _notification_events():
    global _NOTIF
    if _NOTIF is None:
        from pynetdicom import evt

        _NOTIF = list(evt._NOTIFICATION_EVENTS)
    return _NOTIF


class HandlerRaise(Exception):
    """Raised on purpose by fault-injecting handlers."""


class Ctx:
    """Per-run context handed to a property's ``execute``."""

    def __init__(self, sim, net, sc):
        self.sim = sim
        self.net = net
        self.sc = sc
        self.obs = {}
        self.labels = {}
        self.assocs = {}
        self.nlab = {"requestor": 0, "acceptor": 0}
        self.servers = []
        self.aes = []
        self.record_pdu_bytes = True
        self.raise_plan = None  # set of (assoc label, event name, occurrence) -> raise
        self.raise_counts = {}
        self.nthreads = {}
        sim.namer = self._namer

    # -- naming ---------------------------------------------------------------
    def label(self, assoc):
        k = id(assoc)
        lab = self.labels.get(k)
        if lab is None:
            mode = assoc.mode
            lab = "%s%d" % ("req" if mode == "requestor" else "acc", self.nlab[mode])
            self.nlab[mode] += 1
            self.labels[k] = lab
            self.assocs[lab] = assoc
            assoc._dsim_label = lab
        return lab

    def _namer(self, thread, task):
        cls = type(thread).__name__
        if cls == "Association":
            return "assoc:" + self.label(thread)
        if cls == "DULServiceProvider":
            return "dul:" + self.label(thread._assoc)
        nm = thread.name
        if nm.startswith("sim-"):
            return nm[4:]
        if nm.startswith("AcceptorServer"):
            kind = "server"
        elif "process_request_thread" in nm:
            kind = "request"
        else:
            kind = "worker"
        n = self.nthreads.get(kind, 0)
        self.nthreads[kind] = n + 1
        return "%s:%d" % (kind, n)

    def task_by_role(self, role):
        for t in self.sim.tasks:
            if t.role == role:
                return t
        return None

    # -- recording handlers ----------------------------------------------------
    def _rec(self, event):
        sim = self.sim
        name = event.event.name
        lab = self.label(event.assoc)
        d = {"assoc": lab, "evt": name}
        if name == "EVT_FSM_TRANSITION":
            d.update(state=event.current_state, fsm_event=event.fsm_event, action=event.action, next=event.next_state)
        elif name in ("EVT_PDU_SENT", "EVT_PDU_RECV"):
            d["pdu"] = type(event.pdu).__name__
            if self.record_pdu_bytes:
                try:
                    d["bytes"] = event.pdu.encode()
                except Exception as e:  # noqa: BLE001
                    d["bytes"] = None
                    d["encode_error"] = repr(e)
        elif name in ("EVT_DATA_SENT", "EVT_DATA_RECV"):
            d["n"] = len(event.data)
            d["data"] = bytes(event.data)
        elif name in ("EVT_DIMSE_SENT", "EVT_DIMSE_RECV"):
            d["msg"] = type(event.message).__name__
            try:
                cs = event.message.command_set
                d["msg_id"] = cs.get("MessageID", None) and cs.MessageID
                d["rsp_to"] = cs.get("MessageIDBeingRespondedTo", None) and cs.MessageIDBeingRespondedTo
            except Exception:  # noqa: BLE001
                pass
        elif name in ("EVT_ACSE_SENT", "EVT_ACSE_RECV"):
            p = event.primitive
            d["prim"] = type(p).__name__
            d["result"] = getattr(p, "result", None)
            if d["prim"] == "A_ABORT":
                d["abort_source"] = getattr(p, "abort_source", None)
            elif d["prim"] == "A_P_ABORT":
                d["abort_source"] = 2
        elif name == "EVT_CONN_OPEN":
            try:
                d["conn"] = event.assoc.dul.socket.socket._conn.cid
            except Exception:  # noqa: BLE001
                d["conn"] = None
        if name in ("EVT_ABORTED", "EVT_RELEASED", "EVT_REJECTED", "EVT_ESTABLISHED"):
            f = sys._getframe(1)
            d["origin"] = None
            while f is not None:
                fn = f.f_code.co_filename
                if "/pynetdicom/" in fn and not fn.endswith("events.py"):
                    d["origin"] = f.f_code.co_name
                    if d["origin"] == "_abort_blocking":
                        # who asked for the abort: the user's script/handler (plain) or pynetdicom itself (suffix)
                        g = f.f_back
                        while g is not None and g.f_code.co_name in ("abort", "_abort_nonblocking", "_abort_blocking"):
                            g = g.f_back
                        if g is not None and "/pynetdicom/" in g.f_code.co_filename:
                            d["origin"] = "_abort_blocking:" + g.f_code.co_name
                            if g.f_code.co_name == "_handle_no_response":
                                # "DIMSE timeout" declared before the DIMSE timeout has run since the last DIMSE
                                # message this association sent or received?
                                last = [h["t"] for h in sim.hist if h["kind"] == "evt" and h.get("assoc") == lab
                                        and h["evt"] in ("EVT_DIMSE_SENT", "EVT_DIMSE_RECV")]
                                to = event.assoc.dimse_timeout
                                if last and to is not None and sim.now - last[-1] < to * 0.999:
                                    d["origin"] += "!early"
                    break
                f = f.f_back
        sim.record("evt", **d)
        plan = self.raise_plan
        if plan is not None:
            key = (lab, name)
            c = self.raise_counts.get(key, 0)
            self.raise_counts[key] = c + 1
            if plan(lab, name, c):
                sim.count("fault.handler_raise")
                raise HandlerRaise("%s %s #%d" % (lab, name, c))

    def _rec_args(self, event, _tag):
        return self._rec(event)

    def rec_handlers(self):
        form = self.sc.get("handler_form")
        if form == "partial":
            # a callable without __name__: functools.partial of the recording handler
            import functools

            return [(e, functools.partial(self._rec_args, _tag="dsim")) for e in _notification_events()]
        if form == "object":
            # a callable object (no __name__ either)
            outer = self

            class _Callable:
                def __call__(self, event):
                    return outer._rec(event)

            return [(e, _Callable()) for e in _notification_events()]
        if self.sc.get("handler_args"):
            # the documented (event, handler, [args]) form of binding
            return [(e, self._rec_args, ["dsim"]) for e in _notification_events()]
        return [(e, self._rec) for e in _notification_events()]

    # -- construction helpers ----------------------------------------------------
    def make_ae(self, title="PYNETDICOM", acse=0.5, dimse=0.5, network=0.5, connection=None,
                max_pdu=16382, max_assoc=10):
        from pynetdicom import AE

        ae = AE(ae_title=title)
        ae.acse_timeout = acse
        ae.dimse_timeout = dimse
        ae.network_timeout = network
        ae.connection_timeout = connection
        ae.maximum_pdu_size = max_pdu
        ae.maximum_associations = max_assoc
        self.aes.append(ae)
        return ae

    def start_server(self, ae, port=11112, handlers=None, **kw):
        hh = self.rec_handlers() + list(handlers or [])
        srv = ae.start_server(("127.0.0.1", port), block=False, evt_handlers=hh, **kw)
        self.servers.append(srv)
        return srv

    def associate(self, ae, port=11112, handlers=None, **kw):
        hh = self.rec_handlers() + list(handlers or [])
        # AE.associate() takes the requestor's maximum PDU length from its own `max_pdu` argument (default 16382),
        # not from AE.maximum_pdu_size: pass the configured value on so that make_ae(max_pdu=...) means what it says
        kw.setdefault("max_pdu", ae.maximum_pdu_size)
        return ae.associate("127.0.0.1", port, evt_handlers=hh, **kw)

    def spawn(self, fn, name):
        import threading as _rt

        th = _rt.Thread(target=fn, name="sim-" + name)
        th.start()
        return th

    def sleep(self, d):
        self.sim.sleep(d)

    def wait_until(self, pred, timeout, step=0.001):
        deadline = self.sim.now + timeout
        while not pred():
            if self.sim.now >= deadline:
                return False
            self.sim.sleep(step)
        return True

    def shutdown_servers(self):
        for srv in list(self.servers):
            try:
                srv.shutdown()
            except S.SimAbort:
                raise
            except Exception as e:  # noqa: BLE001
                self.sim.record("server_shutdown_error", exc=repr(e))
        self.servers = []

    def assoc_state(self, assoc):
        return {
            "label": self.label(assoc),
            "established": bool(assoc.is_established),
            "released": bool(assoc.is_released),
            "aborted": bool(assoc.is_aborted),
            "rejected": bool(assoc.is_rejected),
            "fsm": assoc.dul.state_machine.current_state,
            "alive": assoc.is_alive(),
            "dul_alive": assoc.dul.is_alive(),
        }


class Result:
    __slots__ = (
        "digest", "steps", "switches", "now", "failure", "failure_info", "died", "hist", "wire",
        "obs", "decisions", "dec_n", "counters", "line_hits", "line_preempts", "open_socks",
        "tasks", "harness_error", "wall", "log", "final",
    )

    def evts(self, assoc=None, name=None):
        return [
            h for h in self.hist
            if h["kind"] == "evt" and (assoc is None or h["assoc"] == assoc) and (name is None or h["evt"] == name)
        ]

    def stream(self, cid, direction):
        return b"".join(w["data"] for w in self.wire if w["conn"] == cid and w["dir"] == direction)


_prepared = False


def prepare(line_events=True):
    """Once per process: import pynetdicom from /repo, silence logging, apply seams."""
    global _prepared
    if _prepared:
        return
    _prepared = True
    if I.REPO not in sys.path:
        sys.path.insert(0, I.REPO)
    logging.disable(logging.CRITICAL)
    import warnings

    warnings.filterwarnings("ignore")   # pydicom warns about invalid UIDs etc. in hostile input; not an observable
    import pynetdicom  # noqa: F401

    I.install()
    if line_events:
        I.install_line_events()
    faulthandler.enable()


def run_once(prop, sc, seed, replay=None, lenient=False, keep_log=False, wall_limit=120):
    """Execute scenario `sc` of property object `prop` under seed `seed`."""
    prepare()
    sim = S.Sim(seed, cfg=sc.get("sched"), replay=replay, lenient=lenient)
    if keep_log:
        sim.log_lines = []
    net = N.Net(sim, cfg=dict(sc.get("net") or {}))
    net.cfg["faults"] = [dict(f) for f in net.cfg.get("faults", [])]
    # which scheduler / network modes this run uses (summed over the batch in the evidence file)
    if sim.cfg.get("low_prio"):
        sim.count("mode.starvation")
    if sim.cfg.get("spawn_stall_pct"):
        sim.count("mode.stall_after_spawn")
    if sim.cfg.get("line_gap"):
        sim.count("mode.line_level_preemption")
    if net.cfg.get("pipe_capacity") is not None:
        sim.count("mode.flow_control")
    if net.cfg.get("recv_cost"):
        sim.count("mode.recv_cost")
    S.set_sim(sim)
    N.set_net(net)
    ctx = Ctx(sim, net, sc)

    def main():
        try:
            prop.execute(sc, ctx)
        finally:
            if not sim.killed:
                try:
                    ctx.shutdown_servers()
                except S.SimAbort:
                    raise
                except Exception as e:  # noqa: BLE001
                    sim.record("finish_error", exc=repr(e))

    t0 = _rtime.perf_counter()
    faulthandler.dump_traceback_later(wall_limit, exit=True)
    try:
        digest = sim.run(main)
    finally:
        faulthandler.cancel_dump_traceback_later()
    r = Result()
    r.wall = _rtime.perf_counter() - t0
    r.digest = digest
    r.steps = sim.seq
    r.switches = sim.nswitch
    r.now = sim.now
    r.failure = sim.failure
    r.failure_info = sim.failure_info
    r.died = [
        {"task": t.tid, "role": t.role, "exc": type(t.exc).__name__, "msg": str(t.exc)[:300], "tb": t.exc_tb}
        for t in sim.died()
    ]
    r.hist = sim.hist
    r.wire = net.wire
    r.obs = ctx.obs
    r.decisions = sim.decisions
    r.dec_n = sim.dec_n
    r.counters = sim.counters
    r.line_hits = sim.line_hits
    r.line_preempts = sim.line_preempts
    r.open_socks = [(s._fd, s.label) for s in net.open_sockets()]
    r.tasks = [
        {"tid": t.tid, "role": t.role, "state": t.state, "exit_t": t.exit_t, "exit_seq": t.exit_seq, "start_t": t.start_t}
        for t in sim.tasks
    ]
    r.final = {}
    for lab, a in ctx.assocs.items():
        try:
            r.final[lab] = ctx.assoc_state(a)
            sk = a.dul.socket
            r.final[lab]["sock_none"] = sk is None or sk.socket is None
            r.final[lab]["sock_closed"] = sk is None or sk.socket is None or bool(getattr(sk.socket, "_closed", False))
        except Exception as e:  # noqa: BLE001
            r.final[lab] = {"error": repr(e)}
    r.harness_error = sim.harness_error
    r.log = sim.log_lines
    S.set_sim(None)
    return r
