"""Batch driver: seeded search over scenarios x schedules x faults in forked
workers, determinism self-test, triage against known findings, minimisation,
replay files and evidence."""
import hashlib
import importlib
import json
import os
import pickle
import random
import shutil
import signal
import subprocess
import sys
import tempfile
import time
import traceback

from . import harness as H
from . import sched as S

VERIF = os.path.dirname(os.path.dirname(os.path.abspath(__file__)))
NPROC = int(os.environ.get("VERIF_NPROC", "0")) or min(16, os.cpu_count() or 4)

COMPONENTS_REAL = [
    "pynetdicom (all modules, imported from /repo working tree)",
    "pydicom",
    "socketserver.BaseServer/TCPServer/ThreadingMixIn logic",
    "threading.Thread objects (real OS threads, one runs at a time)",
]
COMPONENTS_SIM = [
    "time.sleep/time/monotonic (virtual clock)",
    "queue.Queue, threading.Event/Lock (simulated, every operation a yield point)",
    "socket.socket, select.select, socketserver selector, getaddrinfo (simulated TCP)",
    "Thread.start/join/is_alive, threading.enumerate (answered by the scheduler)",
]


def load_prop(pid):
    return importlib.import_module("props." + pid.lower())


def run_seed(verif_seed, pid, idx):
    h = hashlib.sha256(("%s/%s/%s" % (verif_seed, pid, idx)).encode()).hexdigest()
    return int(h[:12], 16)


def scenario_for(mod, verif_seed, idx, tier, directed):
    if idx < len(directed):
        return directed[idx]
    rng = random.Random("%s/%s/%s/scenario" % (verif_seed, mod.ID, idx))
    return mod.gen(rng, idx, tier)


def eval_case(mod, sc, seed, replay=None, lenient=False, keep_log=False):
    """Run one case; returns (result, violations, nontrivial key)."""
    if hasattr(mod, "run_case"):
        return mod.run_case(sc, seed, replay=replay, lenient=lenient)
    r = H.run_once(mod, sc, seed, replay=replay, lenient=lenient, keep_log=keep_log)
    viol = list(mod.check(sc, r))
    if r.harness_error:
        viol.append({"clause": "harness", "sig": "harness-error", "msg": r.harness_error, "harness": True})
    key = mod.nontrivial(sc, r) if hasattr(mod, "nontrivial") else r.digest
    return r, viol, key


def _summ(mod, sc, seed, idx, want_sample):
    t0 = time.perf_counter()
    r, viol, key = eval_case(mod, sc, seed)
    out = {
        "idx": idx,
        "seed": seed,
        "digest": r.digest,
        "key": None if key is None else hashlib.sha256(repr(key).encode()).hexdigest()[:16],
        "steps": r.steps,
        "switches": r.switches,
        "now": r.now,
        "failure": r.failure,
        "counters": r.counters,
        "line_preempts": r.line_preempts,
        "wall": time.perf_counter() - t0,
        "viol": [],
        "probes": mod.probes(sc, r) if hasattr(mod, "probes") else {},
    }
    for v in viol:
        out["viol"].append({"v": v, "sc": sc, "decisions": list(r.decisions), "digest": r.digest})
    if want_sample and hasattr(mod, "sample"):
        try:
            out["sample"] = mod.sample(sc, r)
        except Exception as e:  # noqa: BLE001
            out["sample"] = {"error": repr(e)}
    return out


def parallel(fn, items, nproc, wall_limit, label=""):
    """Run fn(item) for all items in forked workers (static round-robin split).
    Returns (results, errors).  Workers stop taking new items after wall_limit."""
    if not items:
        return [], []
    nproc = max(1, min(nproc, len(items)))
    tmp = tempfile.mkdtemp(prefix="dsim-")
    deadline = time.time() + wall_limit
    pids = {}
    for w in range(nproc):
        mine = items[w::nproc]
        pid = os.fork()
        if pid == 0:
            code = 0
            try:
                out = []
                skipped = 0
                for it in mine:
                    if time.time() > deadline:
                        skipped += 1
                        continue
                    with open(os.path.join(tmp, "%d.cur" % w), "w") as f:
                        f.write(repr(it)[:300])
                    out.append(fn(it))
                with open(os.path.join(tmp, "%d.pkl" % w), "wb") as f:
                    pickle.dump((out, skipped), f)
            except BaseException:  # noqa: BLE001
                with open(os.path.join(tmp, "%d.err" % w), "w") as f:
                    f.write(traceback.format_exc())
                code = 3
            finally:
                sys.stdout.flush()
                sys.stderr.flush()
                os._exit(code)
        pids[pid] = w
    errors = []
    results = []
    hard = deadline + 180
    while pids:
        try:
            pid, st = os.waitpid(-1, os.WNOHANG)
        except ChildProcessError:
            break
        if pid == 0:
            if time.time() > hard:
                for p in pids:
                    try:
                        os.kill(p, signal.SIGKILL)
                    except OSError:
                        pass
                errors.append("workers exceeded hard wall limit: %s" % sorted(pids.values()))
                for p in list(pids):
                    try:
                        os.waitpid(p, 0)
                    except OSError:
                        pass
                break
            time.sleep(0.02)
            continue
        w = pids.pop(pid)
        if os.WIFEXITED(st) and os.WEXITSTATUS(st) == 0:
            continue
        cur = ""
        try:
            cur = open(os.path.join(tmp, "%d.cur" % w)).read()
        except OSError:
            pass
        err = ""
        try:
            err = open(os.path.join(tmp, "%d.err" % w)).read()
        except OSError:
            pass
        errors.append("worker %d died (status %r) while on %s\n%s" % (w, st, cur, err))
    skipped = 0
    for w in range(nproc):
        p = os.path.join(tmp, "%d.pkl" % w)
        if os.path.exists(p):
            with open(p, "rb") as f:
                out, sk = pickle.load(f)
            results.extend(out)
            skipped += sk
    shutil.rmtree(tmp, ignore_errors=True)
    if skipped:
        errors.append("TRUNCATED:%d" % skipped)
    return results, errors


# --------------------------------------------------------------------------- findings
def load_known():
    p = os.path.join(VERIF, "known_findings.jsonl")
    out = []
    if os.path.exists(p):
        for line in open(p):
            line = line.strip()
            if line and not line.startswith("#") and not line.startswith("fixed:"):
                out.append(json.loads(line))
    return out


def match_known(known, pid, sig):
    for k in known:
        if k.get("property") == pid and k.get("status", "open") == "open" and k.get("signature") == sig:
            return k
    return None


# --------------------------------------------------------------------------- shrinking
def _fails_same(mod, sc, seed, sig, replay=None, lenient=False):
    try:
        r, viol, _ = eval_case(mod, sc, seed, replay=replay, lenient=lenient)
    except S.Divergence:
        return None
    for v in viol:
        if v["sig"] == sig:
            return r
    return None


def minimise(mod, sc, seed, decisions, sig, budget_s=40.0):
    """Shrink scenario (property-specific candidates) then the decision log
    (prefix + zeros, then zeroing chunks), keeping the same signature."""
    t_end = time.time() + budget_s
    tried = 0
    # 1. scenario level
    if hasattr(mod, "shrink"):
        improved = True
        while improved and time.time() < t_end:
            improved = False
            for cand in mod.shrink(sc):
                if time.time() > t_end:
                    break
                tried += 1
                for s in (seed, seed + 1, seed + 2):
                    r = _fails_same(mod, cand, s, sig)
                    if r is not None:
                        sc, seed, decisions = cand, s, list(r.decisions)
                        improved = True
                        break
                if improved:
                    break
    # 2. schedule level: shortest prefix followed by the benign default
    lo, hi = 0, len(decisions)
    best = None
    while lo < hi and time.time() < t_end:
        mid = (lo + hi) // 2
        tried += 1
        r = _fails_same(mod, sc, seed, sig, replay=decisions[:mid], lenient=True)
        if r is not None:
            best = r
            hi = mid
        else:
            lo = mid + 1
    if best is not None:
        decisions = list(best.decisions)
    # 3. zero chunks of non-zero decisions
    chunk = max(1, len([d for d in decisions if d]) // 2)
    while chunk >= 1 and time.time() < t_end:
        nz = [i for i, d in enumerate(decisions) if d]
        i = 0
        progressed = False
        while i < len(nz) and time.time() < t_end:
            cand = list(decisions)
            for j in nz[i:i + chunk]:
                cand[j] = 0
            tried += 1
            r = _fails_same(mod, sc, seed, sig, replay=cand, lenient=True)
            if r is not None:
                decisions = list(r.decisions)
                nz = [k for k, d in enumerate(decisions) if d]
                progressed = True
            else:
                i += chunk
        if chunk == 1 and not progressed:
            break
        chunk = chunk // 2 if chunk > 1 else (1 if progressed else 0)
    return sc, seed, decisions, tried


def write_replay(pid, sc, seed, decisions, v, digest, extra=None):
    d = os.environ.get("VERIF_REPLAY_DIR") or os.path.join(VERIF, "replays")
    os.makedirs(d, exist_ok=True)
    name = "%s-%s-%s.json" % (pid, hashlib.sha256(v["sig"].encode()).hexdigest()[:8], seed)
    path = os.path.join(d, name)
    doc = {
        "property": pid,
        "clause": v.get("clause"),
        "signature": v["sig"],
        "message": v.get("msg"),
        "seed": seed,
        "scenario": sc,
        "decisions": _trim(decisions),
        "decisions_len": len(decisions),
        "nonzero_decisions": len([x for x in decisions if x]),
        "digest": digest,
    }
    if extra:
        doc.update(extra)
    with open(path, "w") as f:
        json.dump(doc, f, indent=1, default=_jsonable)
    return path


def _trim(dec):
    n = len(dec)
    while n and dec[n - 1] == 0:
        n -= 1
    return list(dec[:n])


def _jsonable(o):
    if isinstance(o, (bytes, bytearray)):
        return {"__bytes__": bytes(o).hex()}
    if isinstance(o, (set, frozenset)):
        return sorted(o)
    return repr(o)


def _unbytes(o):
    if isinstance(o, dict):
        if set(o.keys()) == {"__bytes__"}:
            return bytes.fromhex(o["__bytes__"])
        return {k: _unbytes(v) for k, v in o.items()}
    if isinstance(o, list):
        return [_unbytes(x) for x in o]
    return o


def replay_file(path, verbose=True):
    """Replay a replay file strictly.  Returns 1 if the recorded violation
    reproduces (prints VIOLATION), 0 if the run is clean, 2 on divergence."""
    doc = _unbytes(json.load(open(path)))
    mod = load_prop(doc["property"])
    H.prepare()
    dec = list(doc["decisions"]) + [0] * (doc.get("decisions_len", len(doc["decisions"])) - len(doc["decisions"]))
    try:
        r, viol, _ = eval_case(mod, doc["scenario"], doc["seed"], replay=dec, lenient=False)
    except S.Divergence as e:
        print("REPLAY-DIVERGED %s: %s" % (path, e))
        return 2
    same = [v for v in viol if v["sig"] == doc["signature"]]
    if verbose:
        print("replay %s: digest %s (%s), %d violation(s)" % (
            os.path.basename(path), r.digest[:16], "same" if r.digest == doc["digest"] else "DIFFERENT", len(viol)))
        for v in viol:
            print("  %s: %s" % (v["sig"], v.get("msg")))
    if same:
        print("VIOLATION property=%s replay=%s" % (doc["property"], path))
        return 1
    return 0


def fresh_replay(path):
    """Replay in a fresh interpreter with another hash seed; returns exit code."""
    env = dict(os.environ)
    env["PYTHONHASHSEED"] = "4242"
    env["VERIF_NO_EVIDENCE"] = "1"
    p = subprocess.run(
        [sys.executable, os.path.join(VERIF, "dsim", "cli.py"), "--replay", path],
        env=env, capture_output=True, text=True, timeout=300,
    )
    return p.returncode, p.stdout + p.stderr


# --------------------------------------------------------------------------- main check
def run_check(pid, tier, verif_seed):
    t_start = time.time()
    mod = load_prop(pid)
    H.prepare()
    bud = mod.budget(tier)
    directed = list(mod.directed(tier)) if hasattr(mod, "directed") else []
    n = max(bud["runs"], 0) + len(directed)
    idxs = list(range(n))

    def job(idx):
        sc = scenario_for(mod, verif_seed, idx, tier, directed)
        return _summ(mod, sc, run_seed(verif_seed, pid, idx), idx, want_sample=(idx % max(1, n // 4) == 0 or idx < 2))

    res, errors = parallel(job, idxs, NPROC, bud.get("wall", 600))
    truncated = 0
    hard_errors = []
    for e in errors:
        if e.startswith("TRUNCATED:"):
            truncated = int(e.split(":")[1])
        else:
            hard_errors.append(e)
    if hard_errors:
        for e in hard_errors:
            print("HARNESS-ERROR %s" % e, file=sys.stderr)
        return 2
    res.sort(key=lambda x: x["idx"])

    # ---- determinism self-test: re-run a sample in other processes
    k = bud.get("selftest", 24)
    step = max(1, len(res) // max(1, k))
    sample = [x for x in res[::step]][:k]
    by_idx = {x["idx"]: x for x in res}

    def rejob(idx):
        sc = scenario_for(mod, verif_seed, idx, tier, directed)
        r, _, _ = eval_case(mod, sc, run_seed(verif_seed, pid, idx))
        return (idx, r.digest)

    # reversed order => different worker and different in-process predecessor
    re, errs2 = parallel(rejob, [x["idx"] for x in reversed(sample)], max(1, NPROC // 2), 300)
    errs2 = [e for e in errs2 if not e.startswith("TRUNCATED:")]
    mism = [i for i, d in re if by_idx[i]["digest"] != d]
    fresh_ok = None
    if bud.get("fresh_selftest", True) and sample:
        fresh_ok = fresh_digest_check(pid, tier, verif_seed, [x["idx"] for x in sample[:4]], by_idx)
    if mism or errs2 or fresh_ok is False:
        print("HARNESS-ERROR non-determinism: mismatching run indices %s %s fresh=%s" % (mism[:10], errs2[:1], fresh_ok), file=sys.stderr)
        return 2

    # ---- triage
    known = load_known()
    all_v = []
    for x in res:
        for v in x["viol"]:
            all_v.append((x, v))
    harness_v = [v for _, v in all_v if v["v"].get("harness")]
    if harness_v:
        print("HARNESS-ERROR %s" % harness_v[0]["v"].get("msg"), file=sys.stderr)
        return 2
    known_hits = {}
    new_by_sig = {}
    for x, v in all_v:
        sig = v["v"]["sig"]
        kf = match_known(known, pid, sig)
        if kf is not None:
            known_hits.setdefault(sig, [kf, 0])[1] += 1
        else:
            new_by_sig.setdefault(sig, []).append((x, v))
    for sig, (kf, cnt) in sorted(known_hits.items()):
        print("KNOWN-FINDING: property=%s %s [%s] (%d runs)" % (pid, kf.get("description", ""), sig, cnt))
    if os.environ.get("VERIF_KNOWN_HITS_FILE"):
        # development aid: which listed findings were actually hit (to keep the list free of stale entries)
        with open(os.environ["VERIF_KNOWN_HITS_FILE"], "a") as f:
            for sig, (kf, cnt) in sorted(known_hits.items()):
                f.write("%s\t%s\t%s\t%d\t%s\n" % (pid, tier, verif_seed, cnt, sig))

    replays = []
    exit_code = 0
    if os.environ.get("VERIF_SURVEY"):
        for sig, lst in sorted(new_by_sig.items()):
            print("SURVEY %4d  %s   e.g. idx %s: %s" % (len(lst), sig, [x["idx"] for x, _ in lst[:6]], lst[0][1]["v"].get("msg", "")[:300]))
        return 1 if new_by_sig else 0
    for sig, lst in sorted(new_by_sig.items())[: bud.get("max_report", 3)]:
        # smallest scenario / shortest log first
        lst.sort(key=lambda xv: (len(json.dumps(xv[1]["sc"], default=_jsonable)), len(xv[1]["decisions"])))
        x, v = lst[0]
        sc, seed, dec = v["sc"], x["seed"], v["decisions"]
        try:
            sc2, seed2, dec2, tried = minimise(mod, sc, seed, dec, sig, budget_s=bud.get("shrink_s", 40))
        except Exception as e:  # noqa: BLE001
            print("shrink failed: %r" % (e,), file=sys.stderr)
            sc2, seed2, dec2, tried = sc, seed, dec, 0
        r = _fails_same(mod, sc2, seed2, sig, replay=dec2, lenient=False)
        if r is None:
            sc2, seed2, dec2 = sc, seed, dec
            r = _fails_same(mod, sc2, seed2, sig, replay=dec2, lenient=False)
        digest = r.digest if r is not None else v["digest"]
        path = write_replay(pid, sc2, seed2, dec2, v["v"], digest, extra={
            "runs_with_this_signature": len(lst), "shrink_attempts": tried,
            "original_decisions": len(dec), "tier": tier, "verif_seed": verif_seed})
        rc, out = fresh_replay(path)
        if rc != 1:
            print("HARNESS-ERROR replay of %s in a fresh interpreter did not reproduce (rc=%s)\n%s" % (path, rc, out[-2000:]), file=sys.stderr)
            return 2
        print("violation: %s: %s" % (sig, v["v"].get("msg")))
        print("VIOLATION property=%s replay=%s" % (pid, path))
        replays.append(path)
        exit_code = 1
    extra_sigs = sorted(new_by_sig)[bud.get("max_report", 3):]
    if extra_sigs:
        print("(+%d more distinct signatures not minimised: %s)" % (len(extra_sigs), extra_sigs[:5]))

    write_evidence(mod, pid, tier, verif_seed, res, truncated, len(directed), t_start,
                   n_viol=sum(len(l) for l in new_by_sig.values()), known_hits=known_hits,
                   selftest={"resampled_runs": len(re), "mismatches": len(mism), "fresh_interpreter_ok": fresh_ok},
                   replays=replays)
    return exit_code


def fresh_digest_check(pid, tier, verif_seed, idxs, by_idx):
    env = dict(os.environ)
    env["PYTHONHASHSEED"] = "777"
    try:
        p = subprocess.run(
            [sys.executable, os.path.join(VERIF, "dsim", "cli.py"), "--digests", pid, tier, str(verif_seed), ",".join(map(str, idxs))],
            env=env, capture_output=True, text=True, timeout=300,
        )
    except subprocess.TimeoutExpired:
        return False
    if p.returncode != 0:
        print(p.stdout[-1500:], p.stderr[-1500:], file=sys.stderr)
        return False
    got = json.loads(p.stdout.strip().splitlines()[-1])
    for i, d in got:
        if by_idx[i]["digest"] != d:
            print("fresh-interpreter digest mismatch idx %d" % i, file=sys.stderr)
            return False
    return True


def digests_cli(pid, tier, verif_seed, idxs):
    mod = load_prop(pid)
    H.prepare()
    directed = list(mod.directed(tier)) if hasattr(mod, "directed") else []
    out = []
    for idx in idxs:
        sc = scenario_for(mod, verif_seed, idx, tier, directed)
        r, _, _ = eval_case(mod, sc, run_seed(verif_seed, pid, idx))
        out.append((idx, r.digest))
    print(json.dumps(out))
    sys.stdout.flush()
    os._exit(0)


def write_evidence(mod, pid, tier, verif_seed, res, truncated, n_directed, t_start, n_viol, known_hits, selftest, replays):
    if os.environ.get("VERIF_NO_EVIDENCE"):
        return
    wall = time.time() - t_start
    keys = set(x["key"] for x in res if x["key"] is not None)
    digests = set(x["digest"] for x in res)
    counters = {}
    probes = {}
    for x in res:
        for k, v in x["counters"].items():
            counters[k] = counters.get(k, 0) + v
        for k, v in x["probes"].items():
            probes[k] = probes.get(k, 0) + (1 if v is True else int(v))
    samples = [x["sample"] for x in res if "sample" in x][:6]
    if not samples:
        samples = [{"idx": x["idx"], "digest": x["digest"], "steps": x["steps"]} for x in res[:3]]
    sim_s = sum(x["now"] for x in res)
    steps = sum(x["steps"] for x in res)
    ev = {
        "property_id": pid,
        "tier": tier,
        "seed": int(verif_seed),
        "level": mod.LEVEL,
        "coverage": {
            "evaluations": len(res),
            "distinct_nontrivial": len(keys),
            "rule": mod.RULE,
            "samples": samples,
            "exhaustive": bool(getattr(mod, "EXHAUSTIVE", {}).get(tier, False)),
            "directed_scenarios": n_directed,
            "truncated_runs_not_executed": truncated,
            "distinct_run_digests": len(digests),
            "simulated_seconds": round(sim_s, 3),
            "scheduler_steps": steps,
            "thread_switches": sum(x["switches"] for x in res),
            "line_level_preemptions": sum(x["line_preempts"] for x in res),
            "runs_per_hour": int(len(res) / max(wall, 1e-6) * 3600),
            "seeds_per_hour": int(len(res) / max(wall, 1e-6) * 3600),
            "fault_and_event_counts": dict(sorted(counters.items())),
            "reach_probes": dict(sorted(probes.items())),
            "run_outcomes": _count(x["failure"] or "completed" for x in res),
            "determinism_selftest": selftest,
            "known_findings_hit": {s: c for s, (k, c) in known_hits.items()},
            "replays_written": replays,
            "components_real": COMPONENTS_REAL,
            "components_simulated_or_stub": COMPONENTS_SIM + list(getattr(mod, "STUBS", [])),
            "workers": NPROC,
        },
        "assumptions": list(getattr(mod, "ASSUMPTIONS", [])) + [
            "the simulated TCP, clock and synchronisation primitives model the real ones faithfully at the level pynetdicom uses them",
            "pre-emption happens only at simulated-primitive operations and sampled LINE events of eight pynetdicom modules",
            "seeded sampling, not exhaustive enumeration (except where coverage.exhaustive is true)",
        ],
        "wall_s": round(wall, 3),
        "violations": n_viol,
    }
    d = os.path.join(VERIF, "evidence")
    os.makedirs(d, exist_ok=True)
    with open(os.path.join(d, "%s.json" % pid), "w") as f:
        json.dump(ev, f, indent=1, default=_jsonable)


def _count(it):
    out = {}
    for x in it:
        out[x] = out.get(x, 0) + 1
    return out
