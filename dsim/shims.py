"""Simulated replacements for time / queue / threading primitives.

Every operation is a yield point of the scheduler.  The classes mirror the
subset of the standard-library interfaces pynetdicom and socketserver use.
"""
import collections
import queue as _rq
import threading as _rt
import time as _rtime
import types

from . import sched as S


def _sim():
    return S.SIM


class SimTime:
    @staticmethod
    def sleep(d):
        sim = S.SIM
        if sim is None or sim.current() is None:
            return
        sim.sleep(d)

    @staticmethod
    def time():
        sim = S.SIM
        return sim.wall_offset + sim.now

    @staticmethod
    def monotonic():
        return S.SIM.now

    perf_counter = monotonic


class SimEvent:
    def __init__(self):
        self._f = False

    def is_set(self):
        return self._f

    isSet = is_set

    def set(self):
        sim = S.SIM
        sim.yield_()
        self._f = True
        sim.wake(self)

    def clear(self):
        S.SIM.yield_()
        self._f = False

    def wait(self, timeout=None):
        sim = S.SIM
        sim.yield_()
        if not self._f:
            if timeout is None:
                while not self._f:
                    sim.block(self, None)
            else:
                deadline = sim.now + timeout
                while not self._f:
                    rem = deadline - sim.now
                    if rem <= 0:
                        break
                    sim.block(self, rem)
        return self._f


class SimLock:
    def __init__(self):
        self._o = None
        self._count = 0

    def acquire(self, blocking=True, timeout=-1):
        sim = S.SIM
        sim.yield_()
        if self._o is not None:
            if not blocking:
                return False
            deadline = None if timeout is None or timeout < 0 else sim.now + timeout
            while self._o is not None:
                rem = None if deadline is None else deadline - sim.now
                if rem is not None and rem <= 0:
                    return False
                sim.block(self, rem)
        self._o = sim.current()
        return True

    def release(self):
        if self._o is None:
            raise RuntimeError("release unlocked lock")
        self._o = None
        S.SIM.wake(self, 1)

    def locked(self):
        return self._o is not None

    def __enter__(self):
        self.acquire()
        return True

    def __exit__(self, *a):
        self.release()


class SimRLock(SimLock):
    def acquire(self, blocking=True, timeout=-1):
        sim = S.SIM
        me = sim.current()
        if self._o is me and me is not None:
            self._count += 1
            return True
        r = SimLock.acquire(self, blocking, timeout)
        if r:
            self._count = 1
        return r

    def release(self):
        self._count -= 1
        if self._count <= 0:
            SimLock.release(self)


class SimQueue:
    """queue.Queue look-alike, including the public ``.queue`` deque that
    pynetdicom peeks at."""

    def __init__(self, maxsize=0):
        self.queue = collections.deque()
        self.maxsize = maxsize
        self._room = object()     # producers blocked on a full bounded queue wait on this

    def put(self, item, block=True, timeout=None):
        sim = S.SIM
        sim.yield_()
        if self.maxsize and self.maxsize > 0 and len(self.queue) >= self.maxsize:
            # bounded queue: the producer waits for room (queue.Full when it may not wait / the wait times out)
            if not block:
                raise _rq.Full
            deadline = None if timeout is None else sim.now + timeout
            while len(self.queue) >= self.maxsize:
                rem = None if deadline is None else deadline - sim.now
                if rem is not None and rem <= 0:
                    raise _rq.Full
                sim.count("queue.put_blocked")
                sim.block(self._room, rem)
        self.queue.append(item)
        if type(item) is str and item.startswith("Evt"):
            # the provider's event queue: which state-machine event was queued when, and by which thread
            me = sim.current()
            sim.record("evq", item=item, role=me.role if me is not None else None)
        sim.wake(self, 1)

    def get(self, block=True, timeout=None):
        sim = S.SIM
        sim.yield_()
        if not self.queue:
            if not block:
                raise _rq.Empty
            deadline = None if timeout is None else sim.now + timeout
            while not self.queue:
                rem = None if deadline is None else deadline - sim.now
                if rem is not None and rem <= 0:
                    raise _rq.Empty
                sim.block(self, rem)
        item = self.queue.popleft()
        if self.maxsize and self.maxsize > 0:
            sim.wake(self._room, 1)
        return item

    def empty(self):
        return not self.queue

    def qsize(self):
        return len(self.queue)

    def get_nowait(self):
        return self.get(False)

    def put_nowait(self, item):
        return self.put(item)


def make_proxy(real, **over):
    m = types.ModuleType(real.__name__)
    m.__dict__.update(real.__dict__)
    m.__dict__.update(over)
    return m


def sim_enumerate():
    sim = S.SIM
    if sim is None:
        return S._real_enumerate()
    return [t.thread for t in sim.tasks if t.state != "done"]


def patched_start(self):
    sim = S.SIM
    if sim is not None and sim.current() is not None and not sim.killed:
        sim.yield_()
        sim.spawn_thread(self)
        # the real Thread.start() waits until the child is running: the child may well get ahead of its parent here;
        # with `spawn_stall_pct` the parent is descheduled for `spawn_stall` virtual seconds (fault: thread_stall)
        pct = sim.cfg.get("spawn_stall_pct", 0)
        if pct and sim.chance("sched", pct):
            me = sim.current()
            sim.stall(me, sim.cfg.get("spawn_stall", 0.002))
        sim.yield_()
        return None
    if sim is not None and sim.killed and sim.current() is not None:
        raise S.SimAbort()
    return S._real_Thread_start(self)


def patched_is_alive(self):
    t = getattr(self, "_sim_task", None)
    if t is not None:
        return t.state != "done"
    return S._real_Thread_is_alive(self)


def patched_join(self, timeout=None):
    t = getattr(self, "_sim_task", None)
    sim = S.SIM
    if t is not None and sim is not None and sim.current() is not None:
        sim.yield_()
        if t.state != "done":
            if timeout is None:
                while t.state != "done":
                    sim.block(self, None)
            else:
                sim.block(self, timeout)
        return None
    return S._real_Thread_join(self, timeout)


_installed = {}


def install_thread_patches():
    _rt.Thread.start = patched_start
    _rt.Thread.is_alive = patched_is_alive
    _rt.Thread.join = patched_join


def time_module():
    return make_proxy(
        _rtime,
        sleep=SimTime.sleep,
        time=SimTime.time,
        monotonic=SimTime.monotonic,
        perf_counter=SimTime.monotonic,
    )


def queue_module():
    return make_proxy(_rq, Queue=SimQueue)


def threading_module():
    return make_proxy(
        _rt, Event=SimEvent, Lock=SimLock, RLock=SimRLock, enumerate=sim_enumerate
    )
